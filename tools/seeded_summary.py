#!/usr/bin/env python3
import json, os, glob
V = os.path.dirname(os.path.dirname(os.path.abspath(__file__)))
rows = []
for d in sorted(glob.glob(os.path.join(V, 'seeded', '*', ''))):
    mp = os.path.join(d, 'meta.json')
    if not os.path.exists(mp): continue
    m = json.load(open(mp))
    res = ''
    rp = os.path.join(d, 'check_result.txt')
    if os.path.exists(rp): res = open(rp, errors='replace').read().strip().split('\n')[0]
    caught = 'exit=1' in res
    status = 'CAUGHT' if caught else ('inconclusive' if 'exit=2' in res else ('MISSED' if 'exit=0' in res else 'not run'))
    label = ''
    if 'assertion=' in res:
        label = res.split('assertion="')[1].split('"')[0]
    job = ''
    if ' job=' in res:
        job = res.split(' job=')[1].split(' assertion')[0]
    m['check_status'] = status
    m['caught_by'] = {'job': job, 'assertion': label} if caught else None
    json.dump(m, open(mp, 'w'), indent=1)
    rows.append((m['property'], os.path.basename(d.rstrip('/')), status, job, label, m.get('what_it_needs_to_manifest', '')[:160].replace('\n', ' ')))
with open(os.path.join(V, 'seeded', 'SUMMARY.md'), 'w') as f:
    f.write('# Seeded breaking changes and the check that catches them\n\n')
    f.write('Each change compiles and passes the 358-test suite; each was confirmed in a scratch worktree (demo passes clean, fails patched).\n')
    f.write('`./tools/eval_seeded.sh` applies each patch to a scratch worktree and runs the quick check of the broken property against it.\n\n')
    f.write('| property | change | result | caught by job | assertion | needs |\n|---|---|---|---|---|---|\n')
    for r in rows:
        f.write('| %s | %s | %s | %s | %s | %s |\n' % r)
    n = len(rows); c = sum(1 for r in rows if r[2] == 'CAUGHT')
    f.write('\n%d of %d caught (exit 1 with a natively replayed counterexample).\n' % (c, n))
print(open(os.path.join(V, 'seeded', 'SUMMARY.md')).read()[-400:])
