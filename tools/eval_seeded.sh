#!/bin/bash
# usage: eval_seeded.sh [name-filter]   -- runs the quick check of the broken property against each seeded change
export GOFLAGS=-mod=mod GOPROXY=off GOSUMDB=off GOTOOLCHAIN=local
WT=${WT:-/tmp/wt-eval}
[ -d $WT ] || git -C /repo worktree add -q $WT HEAD
for d in /verif/seeded/*${1}*/; do
  name=$(basename $d)
  prop=$(python3 -c "import json;print(json.load(open('$d/meta.json'))['property'])")
  cd $WT && git checkout -q --detach main 2>/dev/null; git checkout -q -- . && git clean -fdq
  git apply $d/patch.diff || { echo "SEEDED $name: patch does not apply"; continue; }
  s=$(date +%s)
  out=$(cd /verif && GOSYM_OUT=/tmp/eval-out timeout 1500 ./bin/gosym check -prop $prop -tier quick -repo $WT -workers 16 2>&1)
  code=$?
  e=$(( $(date +%s)-s ))
  viol=$(echo "$out" | grep -a -c "^VIOLATION")
  first=$(echo "$out" | grep -a -A1 "^VIOLATION" | head -2 | tr '\n' ' ' | cut -c1-300)
  echo "SEEDED $name prop=$prop exit=$code violations=$viol time=${e}s :: $first"
  echo "exit=$code violations=$viol time=${e}s :: $first" > $d/check_result.txt
  echo "$out" | grep -a "^INCONCLUSIVE" | head -3 >> $d/check_result.txt
done
cd $WT && git checkout -q -- . && git clean -fdq
