#!/bin/bash
# usage: confirm_seeded.sh <worktree-with-seeded-dir> ; confirms each seeded change in a scratch worktree
# and copies confirmed ones to /verif/seeded/<property>-<name>/
export GOFLAGS=-mod=mod GOPROXY=off GOSUMDB=off GOTOOLCHAIN=local
SRC=$1
WT=/tmp/wt-confirm-$$
git -C /repo worktree add -q $WT HEAD || exit 1
for d in $SRC/seeded/*/; do
  name=$(basename $d)
  [ -f $d/patch.diff ] || continue
  prop=$(python3 -c "import json;print(json.load(open('$d/meta.json'))['property'])")
  pkg=$(python3 -c "import json;print(json.load(open('$d/meta.json'))['demo_package_dir'])" | sed 's#^\./##;s#/$##')
  cd $WT && git checkout -q -- . && git clean -fdq
  cp $d/demo_test.go $WT/$pkg/zz_seeded_demo_test.go
  clean_demo=$(go test -vet=off -count=1 ./$pkg/ 2>&1 | tail -1)
  if ! git apply $d/patch.diff 2>/tmp/apply.err; then echo "RESULT $prop $name: PATCH-DOES-NOT-APPLY $(head -1 /tmp/apply.err)"; continue; fi
  build=$(go build ./... 2>&1 | tail -1)
  patched_demo=$(go test -vet=off -count=1 ./$pkg/ 2>&1 | grep -c "^--- FAIL\|^FAIL")
  rm -f $WT/$pkg/zz_seeded_demo_test.go
  suite=$(go test -vet=off -count=1 ./... 2>&1 | grep -v "^ok\|no test files" | head -3)
  ok=1
  case "$clean_demo" in ok*) ;; *) ok=0;; esac
  [ -z "$build" ] || ok=0
  [ "$patched_demo" -gt 0 ] || ok=0
  [ -z "$suite" ] || ok=0
  echo "RESULT $prop $name: clean_demo=[$clean_demo] build=[$build] patched_demo_fails=$patched_demo suite=[$suite] confirmed=$ok"
  if [ $ok = 1 ]; then
    dst=/verif/seeded/$prop-$name; mkdir -p $dst
    cp $d/patch.diff $d/demo_test.go $dst/
    python3 - "$d/meta.json" "$dst/meta.json" <<PY
import json,sys
m=json.load(open(sys.argv[1]))
m['confirmed_by_me']="scratch worktree at /repo HEAD: demo passes on clean tree; with patch: go build ./... ok, full suite passes, demo fails"
json.dump(m,open(sys.argv[2],'w'),indent=1)
PY
  fi
done
cd / && git -C /repo worktree remove --force $WT
