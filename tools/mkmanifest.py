#!/usr/bin/env python3
# Regenerates /verif/MANIFEST.json from the table below.
import json, os
V = os.path.dirname(os.path.dirname(os.path.abspath(__file__)))
ids = [json.loads(l)['id'] for l in open(os.path.join(V, 'properties.jsonl'))]

TECH = "bounded symbolic execution of the real go/ssa of /repo (engine gosym) with SMT back ends z3/cvc5; solver verdict over all inputs within the stated bounds; native replay of every counterexample"
NOTE_COMMON = ("Trusted: go/packages+go/ssa front end; gosym's instruction semantics and its listed models (sync, holster clock, time on a grid, fmt/errors, header canonicalisation); "
               "z3 4.8.12, z3 5.1.0, cvc5 1.0. Counterexamples are only reported after they reproduce against the natively compiled /repo. Bounds are listed per obligation in the evidence file; nothing is claimed outside them. ")

claimed = {
 "C01": ("6 C01", "BMC through the public API (New/UpsertServer/NextServer): for n<=3 servers (thorough n<=4) with symbolic weights 0..4 (thorough 0..6, zeros via re-weighting, not all zero) every window of W=sum/gcd consecutive selections at every offset contains server i exactly w_i/g times; real gcd/maxWeight/nextServer SSA executed, weights are solver variables.",
          "n<=3 (4), weights<=4 (6); concurrency covered only through the lock-discipline obligations of C09"),
 "C03": ("6 C03", "Inductive potential lemma on the real tokenBucket.consume SSA from an arbitrary invariant-satisfying state (symbolic burst, available tokens, refill age, clock gap up to 2^44 ns, request amount) for a list of token periods: PHI'+admitted*tpt <= PHI+gap and the invariant is preserved, which telescopes to admitted(T) < burst+1+T/tpt for histories of any length.",
          "timePerToken from a concrete list (1ns,3ns,1us,1/3s,1s,60s); TTL-map expiry and multi-source capacity are C14's / the limiter-level obligations"),
 "C04": ("6 C04", "One-step induction on acquire/release from an arbitrary consistent state (3 sources, symbolic max and in-flight counts) plus BMC of the real ServeHTTP with overlapping (nested) requests whose handlers return or panic (symbolic), asserting in-flight<=max at every handler entry, rejection only at the maximum, 429 on rejection and all slots returned afterwards.",
          "overlap depth<=3 (4), 2 request trees, 2-3 sources; non-nested interleavings are covered by atomicity of acquire/release (lock held: asserted) plus the inductive step"),
 "C13": ("6 C13", "From an arbitrary invariant-satisfying bucket (and two-bucket set, both map orders): a rejected request leaves the state equal to a refresh-only twin (no debit in any bucket), the advertised delay followed by any extra wait makes the same request admitted, idle burst*tpt restores the full burst, and an oversize request yields an error with undefined delay.",
          "tpt from a list for the single-bucket obligations (symbolic tpt in the thorough tier), symbolic tpt for the set"),
 "C17": ("6 C17", "BMC from a fresh RollingCounter: N in {2,3,4} buckets, resolution 1s/2s (the time grid), k=3 (thorough 4) operations chosen symbolically among Inc/Count/Reset with symbolic clock advances (sub-resolution and multi-window), symbolic start instant; at every Count the two-sided window bound holds; RatioCounter.Ratio equals a/(a+b) in IEEE arithmetic.",
          "N<=4 (10 in thorough), k<=3/4, resolutions 1s,2s,7s; start instant within a window covering all slot residues"),
 "C05": ("6 C05", "BMC through the real CircuitBreaker.ServeHTTP (activateFallback, serve, checkAndSet, setState, setRecovering) from a fresh breaker: k requests with overlapping (nested) in-flight requests, symbolic clock gaps/latencies, symbolic fallback/recovery/check durations, symbolic condition outcome per evaluation; asserts shielding while tripped until tripAt+fallbackDuration, fallback answer, standby passes everything, legal transitions only, `until` stable while tripped.",
          "k<=3 requests, overlap depth<=2 (thorough k<=4); metrics Record/Reset and the ramp decision are stubs here (C18/C12 own them), so counterexamples whose replay depends on a ramp decision may be reported as inconclusive"),
 "C12": ("6 C12", "IEEE-754-exact check of ratioController.allowRequest: for every counter pair in [0,A]^2, listed recovery durations and every elapsed time the float decision agrees with the exact rational ramp 0.5*elapsed/duration within 2^-40, counters move by exactly one; inductive float-level invariant fraction<=ramp for symbolic counters < 2^B; end of recovery (standby after the period, re-trip) is asserted in the C05 history harness.",
          "A=3 (7), B=3 (6), durations 7ns,1s,10s,1h"),
 "C19": ("6 C19", "String-theory check (cvc5 strings + LIA, z3 for models) of NewExtractor/extractClientIP/extractHost/header extractor on the real SSA including net.SplitHostPort: for the three address forms net/http produces with symbolic byte contents the token equals the peer address, amounts are 1, and the variable-name dispatch accepts exactly the documented names.",
          "string lengths case-split: ip 1..5, port 1..5, zone 1..3 bytes (listed per job); malformed RemoteAddr is outside the claim"),
 "C02": ("6 C02", "BMC through the public API of RoundRobin and of Rebalancer-over-RoundRobin: every history of k administration calls (upsert with/without weight, remove; symbolic choice of operation, URL and weight over a universe of 4 URLs with 3 identities differing in scheme/path/userinfo/query) is compared with a reference pool after every call (membership, size, weights, remove-unknown fails); then one rotation via NextServer or ServeHTTP shows traffic only to positive-weight members, each within one rotation, error response and no forwarding for an empty/all-zero pool, and a URL-rewriting downstream handler leaves the pool unchanged.",
          "k<=3 (thorough 4) calls; racing administration is C09's lock discipline; the sticky path is covered by C11's harness"),
 "C10": ("6 C10", "Inductive step on the real adjustWeights/markServers/setMarkedWeights/convergeWeights/normalizeWeights/applyWeights from an arbitrary state satisfying the representation invariant (symbolic configured and current weights, ratings from a list, readiness, timer, back-off): range [1,max(4096,configured)], configured weights untouched, balancer weights equal shadow weights, change only when all meters are ready and the timer expired, change arms the timer, no outlier's share grows; exact normalisation for a symbolic divisor; reset after any membership/weight change.",
          "n=2 (thorough 3); ratings from {0,0.02,0.5,1}; gcd stubbed to 1 for 13-bit weights (real gcd for weights<=3); convergence-within-six and two-interval clauses are not claimed"),
 "C16": ("6 C16", "Symbolic execution of forward.New(...).ErrorHandler (utils.StdHandler) over all error kinds (net.Error with symbolic timeout flag, EOF, wrapped EOF, context.Canceled, wrapped, other): exactly one status 502/504/499/500 as documented and one body; StateListener.ServeHTTP with a next handler that returns or panics (incl. http.ErrAbortHandler): callbacks are exactly [connected, disconnected] for the same URL.",
          "byte-faithful relay, real timeouts/resets and chunking belong to net/http/httputil.ReverseProxy + http.Transport and are outside the reach of the encoder: not claimed"),
 "C06": ("6 C06", "Bounded symbolic execution of the real Buffer.ServeHTTP/copyRequest with the real multibuf and the interpreted standard-library readers: request bodies of 0/2/5 bytes (thorough up to 8) in chunks of 1..3, declared or chunked, request thresholds symbolic around the body size (in memory and spilled to the ghost file), a handler that reads all or a prefix and mutates URL, headers and method, symbolic retries: every attempt sees the original method, URL, headers, true Content-Length, no Transfer-Encoding, and the complete body from byte 0; attempts and the client's request share no URL.",
          "concrete small payload bytes (sizes and thresholds symbolic); multi-megabyte bodies are represented by the threshold relations only"),
 "C07": ("6 C07", "Same harness, response side: per attempt the handler answers no status / 200 / 502 / 204 (thorough also 404) with 0..2 writes, response thresholds symbolic (memory and spill), POST/HEAD, symbolic retry decisions: the client gets exactly one WriteHeader with the final attempt's status (200 when none was chosen), the final attempt's headers and exactly its body bytes, nothing from discarded attempts. Retry expression: operator table captured from parseExpression, the six comparisons over Attempts/ResponseCode, RequestMethod, IsNetworkError, and/or/nesting equal the standard reading for symbolic operands; retry loop with the real predicate `ResponseCode() != 200 && Attempts() < limit` (limit symbolic up to 13): invocations follow the expression judged on the status each attempt produced (200 if none) and never exceed 11.",
          "string->AST parsing of vulcand/predicate is outside; response sizes up to 6 bytes"),
 "C14": ("6 C14", "TTL map of capacity 2/3 filled through its API with symbolic ttls at symbolic instants, then Set of a new key at a symbolic later instant: exactly one entry is forgotten — an expired one if any exists, else the one nearest to expiry — all other entries (value, expiry) unchanged; Set of an existing key changes only that key; representation consistency asserted before and after; connection-limiter frame condition (other sources' entries untouched, decision depends on own count only).",
          "capacity <= 3; the rate limiter's end-to-end self-composition (O1) runs in the thorough tier only"),
 "C15": ("6 C15", "Same buffer harness with the ghost file table under the real multibuf: request over the configured maximum (declared or discovered while reading a chunked body) yields 413 and the handler is never invoked; a response over its maximum yields an error status and none of its bytes; after ServeHTTP returns no spill file exists, for success, errors, over-limit, retries, HEAD and 204.",
          "sizes up to 8 bytes with thresholds around them; real file-system failures are not injected"),
 "C08": ("6 C08", "Symbolic execution of the real Director closure of forward.New (modifyRequest, getURLFromRequest, HeaderRewriter.Rewrite, forwardedPort, ipv6fix, the Connection sanitiser) inside a transcription of ReverseProxy's documented outbound steps: for symbolic passHostHeader, TLS, Host with/without port, IPv4/IPv6/zoned peer, which forwarding headers an upstream proxy supplied, prior X-Forwarded-For and the subset of header names listed in Connection: hop-by-hop and Connection-named headers removed, end-to-end headers kept, X-Forwarded-Proto/-Host/-Port/-Server and X-Real-Ip describe the connection unless supplied, X-Forwarded-For ends with the peer, HTTP/1.1, Host rule; path/raw path/query preserved for a corpus of 11 targets.",
          "the steps of net/http/httputil.ReverseProxy after Director are a transcription of its documentation (trusted); request targets are a corpus, not symbolic strings; the response direction and the wire are not claimed"),
 "C09": ("6 C09", "Lockset analysis on the real SSA with a lock table and an access log: for each middleware instance and each pair of entry points (ServeHTTP and the administration / inspection calls, also after idle gaps) every read/write of a shared cell or map is recorded with the mutexes held and their mode; a conflicting pair of accesses without a common excluding lock is reported and replayed under `go test -race`.",
          "2 goroutines; mutex synchronisation only; trace middleware and Wrap/Fallback setters not covered; lost-update interleavings beyond data races not modelled"),
 "C11": ("6 C11", "Codec level: for raw, hash, AES (ttl 0 and >0) and fallback chains over a universe of server URLs with userinfo, query containing the ttl separator, port and escaped path, every pool subset and cookie age within the ttl: the cookie issued for a member finds exactly that member, non-member/malformed/expired cookies find nothing. Routing level through RoundRobin and Rebalancer ServeHTTP with real cookie parsing: no cookie -> balanced + fresh cookie, member cookie -> that member whatever the rotation state and weights, cookie of a removed server -> balanced among members + fresh cookie; downstream URL rewriting does not change the pool.",
          "AES-GCM is replaced by an authenticated stand-in and crypto/rand by a fixed reader (listed stubs); URLs are a concrete universe"),
 "C18": ("6 C18", "Expression semantics: the operator table and function map captured from parseExpression, all six comparisons over the three metric functions with symbolic values and constants (IEEE semantics), and/or and nesting, equal to the standard reading. Metrics: Record/ratios/Reset on the real RTMetrics with symbolic codes. Decision and effects through the C05 history harness: evaluated exactly when the check period is over, trips iff the condition is true, metrics reset once per trip, on-tripped/on-standby run once per transition.",
          "string->AST parsing of vulcand/predicate and HDR-histogram quantiles are outside (latency is a symbolic leaf)"),
 "C20": ("6 C20", "Assume-guarantee: contract T(m) (handler invoked once; status, headers, body, call order, flush and hijack relayed unchanged, only documented additions) and D(m) (one complete documented response, handler not invoked) checked for ProxyWriter, stream, connlimit, ratelimit, cbreaker, roundrobin (+sticky), rebalancer and buffer with a symbolic handler script; T for each middleware gives transparency of every stack by induction on depth.",
          "trace middleware not covered (JSON encoder outside the encoder's reach); buffer modulo coalescing, no Flush, hijack before writing"),
}

checks = []
for pid in ids:
    if pid not in claimed: continue
    ref, text, lim = claimed[pid]
    checks.append({
        "property_id": pid,
        "quick_cmd": f"./run {pid} quick",
        "thorough_cmd": f"./run {pid} thorough",
        "evidence_file": f"/verif/evidence/{pid}.json",
        "replay_cmd_template": "./run replay {path}",
        "engine": "gosym",
        "level_claimed": {"category": "model_checking", "text": text, "design_ref": ref},
        "level_note": NOTE_COMMON + "Limits of this check: " + lim + ".",
        "technique": TECH,
    })

na_reason = {}
na = [{"property_id": i, "reason": na_reason.get(i, "check not yet built (implementation in progress); see DESIGN.md section 6")} for i in ids if i not in claimed]

m = {
 "version": 1,
 "setup_cmd": "cd /verif/engine && GOFLAGS=-mod=mod GOPROXY=off GOSUMDB=off GOTOOLCHAIN=local go build -o /verif/bin/gosym .",
 "hooks": {"guard": "verif", "enable": "no source hooks: harnesses are injected as go/packages and `go test` overlays (files /verif/harness/<pkg>/zz_verif_*.go), /repo is not modified",
           "baseline_off_cmd": "cd /repo && GOFLAGS=-mod=mod GOPROXY=off go test -vet=off -count=1 -timeout 25m ./...",
           "source_commits": [], "add_only": True},
 "engines": [{"name": "gosym", "path": "/verif/engine", "serves_properties": sorted(claimed), "kind_free_text": "symbolic executor for go/ssa (x/tools v0.29.0) emitting SMT-LIB2; portfolio z3 / z3-new / cvc5 / cvc5 --solve-bv-as-int"}],
 "checks": checks,
 "notes": "See DESIGN.md. Exit codes: 0 held within bounds; 1 replay-confirmed violation (VIOLATION line); 2 inconclusive (never success).",
 "not_applicable": na,
}
json.dump(m, open(os.path.join(V, 'MANIFEST.json'), 'w'), indent=1)
print("claimed", sorted(claimed))
