#!/bin/bash
# runs the quick checks of the properties anchored in the touched file against each behaviour-preserving refactoring;
# any VIOLATION line here is a false alarm of the machinery
export GOFLAGS=-mod=mod GOPROXY=off GOSUMDB=off GOTOOLCHAIN=local
WT=${WT:-/tmp/wt-eval}
declare -A PROPS=( [rr-explicit-unlock-copy-delete]="C01 C02 C09 C11 C20" [rebalancer-simplify-branches]="C02 C10 C09" [bucket-min-builtin-added-tokens]="C03 C13" [tokenlimiter-extract-bucketset-helper]="C03 C14 C09 C20" [connlimit-explicit-unlock-local-copy]="C04 C09 C14 C20" [cbreaker-switch-to-if-chain]="C05 C12 C18 C09 C20" [counter-hoist-invariant-early-break]="C17 C18 C09" [ttlmap-loop-conditions-early-return]="C14 C09" [buffer-error-helper]="C06 C07 C15 C20" [threshold-predicates]="C07 C20" [fwd-extract-token-filter]="C08 C16" [rewrite-cut-switch]="C08" [source-switch-cut]="C19 C04 C03" [netutils-stdlib-guards]="C20 C02 C18" [handler-status-helper]="C16 C20 C04" [sticky-find-helper]="C11 C02" )
for d in /verif/refactorings/*${1}*/; do
  name=$(basename $d); [ -f $d/patch.diff ] || continue
  cd $WT && git checkout -q --detach main 2>/dev/null; git checkout -q -- . && git clean -fdq
  git apply $d/patch.diff || { echo "REFACTOR $name: patch does not apply"; continue; }
  for prop in ${PROPS[$name]}; do
    s=$(date +%s)
    out=$(cd /verif && GOSYM_OUT=/tmp/eval-out-ref timeout 1500 ./bin/gosym check -prop $prop -tier quick -repo $WT -workers 16 2>&1)
    code=$?
    echo "REFACTOR $name prop=$prop exit=$code violations=$(echo "$out" | grep -a -c '^VIOLATION') incon=$(echo "$out" | grep -a -c '^INCONCLUSIVE') time=$(( $(date +%s)-s ))s :: $(echo "$out" | grep -a '^VIOLATION\|^INCONCLUSIVE' | head -2 | tr '\n' ' ' | cut -c1-300)"
  done
done
cd $WT && git checkout -q -- . && git clean -fdq
