package main

import (
	"bufio"
	"context"
	"fmt"
	"io"
	"math"
	"math/big"
	"os"
	"os/exec"
	"strconv"
	"strings"
	"sync"
	"sync/atomic"
	"time"
)

// ---------- S-expressions ----------

type sexp struct {
	atom string
	list []*sexp
	isL  bool
}

func parseSexps(s string) []*sexp {
	var out []*sexp
	i := 0
	for {
		x, ok := parseSexp(s, &i)
		if !ok {
			break
		}
		out = append(out, x)
	}
	return out
}

func parseSexp(s string, i *int) (*sexp, bool) {
	for *i < len(s) && (s[*i] == ' ' || s[*i] == '\n' || s[*i] == '\t' || s[*i] == '\r') {
		*i++
	}
	if *i >= len(s) {
		return nil, false
	}
	if s[*i] == '(' {
		*i++
		x := &sexp{isL: true}
		for {
			for *i < len(s) && (s[*i] == ' ' || s[*i] == '\n' || s[*i] == '\t' || s[*i] == '\r') {
				*i++
			}
			if *i >= len(s) {
				return x, true
			}
			if s[*i] == ')' {
				*i++
				return x, true
			}
			c, ok := parseSexp(s, i)
			if !ok {
				return x, true
			}
			x.list = append(x.list, c)
		}
	}
	if s[*i] == ')' {
		*i++
		return nil, false
	}
	if s[*i] == '"' {
		j := *i + 1
		var sb strings.Builder
		for j < len(s) {
			if s[j] == '"' {
				if j+1 < len(s) && s[j+1] == '"' {
					sb.WriteByte('"')
					j += 2
					continue
				}
				break
			}
			sb.WriteByte(s[j])
			j++
		}
		*i = j + 1
		return &sexp{atom: "\"" + sb.String()}, true
	}
	if s[*i] == '|' {
		j := *i + 1
		for j < len(s) && s[j] != '|' {
			j++
		}
		a := s[*i+1 : j]
		*i = j + 1
		return &sexp{atom: a}, true
	}
	j := *i
	for j < len(s) && !strings.ContainsRune(" \n\t\r()", rune(s[j])) {
		j++
	}
	a := s[*i:j]
	*i = j
	return &sexp{atom: a}, true
}

func (x *sexp) String() string {
	if !x.isL {
		return x.atom
	}
	var parts []string
	for _, c := range x.list {
		parts = append(parts, c.String())
	}
	return "(" + strings.Join(parts, " ") + ")"
}

// Model value
type MVal struct {
	Sort Sort
	Big  *big.Int // BV wider than 64 bits
	U    uint64
	F    float64
	S    string
	I    int64
}

func (m MVal) String() string {
	switch m.Sort.K {
	case SBool:
		return strconv.FormatBool(m.U != 0)
	case SBV:
		if m.Big != nil {
			return m.Big.String()
		}
		return strconv.FormatInt(signExt(m.U, m.Sort.W), 10)
	case SFP:
		return strconv.FormatFloat(m.F, 'g', -1, 64)
	case SStr:
		return strconv.Quote(m.S)
	case SInt:
		return strconv.FormatInt(m.I, 10)
	}
	return "?"
}

func unescapeSMT(s string) string {
	// handle \u{XX} and \xXX escapes
	var sb strings.Builder
	for i := 0; i < len(s); i++ {
		if s[i] == '\\' && i+2 < len(s) && s[i+1] == 'u' && s[i+2] == '{' {
			j := strings.IndexByte(s[i:], '}')
			if j > 0 {
				v, err := strconv.ParseUint(s[i+3:i+j], 16, 32)
				if err == nil {
					if v < 256 {
						sb.WriteByte(byte(v))
					} else {
						sb.WriteRune(rune(v))
					}
					i += j
					continue
				}
			}
		}
		if s[i] == '\\' && i+3 < len(s) && s[i+1] == 'x' {
			v, err := strconv.ParseUint(s[i+2:i+4], 16, 8)
			if err == nil {
				sb.WriteByte(byte(v))
				i += 3
				continue
			}
		}
		sb.WriteByte(s[i])
	}
	return sb.String()
}

func parseModelValue(x *sexp, s Sort) (MVal, bool) {
	m := MVal{Sort: s}
	switch s.K {
	case SBool:
		if x.atom == "true" {
			m.U = 1
			return m, true
		}
		if x.atom == "false" {
			return m, true
		}
	case SBV:
		if s.W > 64 {
			var b *big.Int
			var ok bool
			if strings.HasPrefix(x.atom, "#x") {
				b, ok = new(big.Int).SetString(x.atom[2:], 16)
			} else if strings.HasPrefix(x.atom, "#b") {
				b, ok = new(big.Int).SetString(x.atom[2:], 2)
			} else if x.isL && len(x.list) == 3 && x.list[0].atom == "_" && strings.HasPrefix(x.list[1].atom, "bv") {
				b, ok = new(big.Int).SetString(x.list[1].atom[2:], 10)
			}
			if ok {
				m.Big = b
				return m, true
			}
			return m, false
		}
		if strings.HasPrefix(x.atom, "#x") {
			v, err := strconv.ParseUint(x.atom[2:], 16, 64)
			if err == nil {
				m.U = v
				return m, true
			}
		}
		if strings.HasPrefix(x.atom, "#b") {
			v, err := strconv.ParseUint(x.atom[2:], 2, 64)
			if err == nil {
				m.U = v
				return m, true
			}
		}
		if x.isL && len(x.list) == 3 && x.list[0].atom == "_" && strings.HasPrefix(x.list[1].atom, "bv") {
			v, err := strconv.ParseUint(x.list[1].atom[2:], 10, 64)
			if err == nil {
				m.U = v
				return m, true
			}
		}
	case SStr:
		if strings.HasPrefix(x.atom, "\"") {
			m.S = unescapeSMT(x.atom[1:])
			return m, true
		}
	case SInt:
		if !x.isL {
			v, err := strconv.ParseInt(x.atom, 10, 64)
			if err == nil {
				m.I = v
				return m, true
			}
		} else if len(x.list) == 2 && x.list[0].atom == "-" {
			v, err := strconv.ParseInt(x.list[1].atom, 10, 64)
			if err == nil {
				m.I = -v
				return m, true
			}
		}
	case SFP:
		if x.isL && len(x.list) == 4 && x.list[0].atom == "fp" {
			sg, e1 := strconv.ParseUint(strings.TrimPrefix(x.list[1].atom, "#b"), 2, 64)
			var ex, mn uint64
			var e2, e3 error
			if strings.HasPrefix(x.list[2].atom, "#b") {
				ex, e2 = strconv.ParseUint(x.list[2].atom[2:], 2, 64)
			} else {
				ex, e2 = strconv.ParseUint(strings.TrimPrefix(x.list[2].atom, "#x"), 16, 64)
			}
			if strings.HasPrefix(x.list[3].atom, "#b") {
				mn, e3 = strconv.ParseUint(x.list[3].atom[2:], 2, 64)
			} else {
				mn, e3 = strconv.ParseUint(strings.TrimPrefix(x.list[3].atom, "#x"), 16, 64)
			}
			if e1 == nil && e2 == nil && e3 == nil {
				m.F = math.Float64frombits(sg<<63 | ex<<52 | mn)
				return m, true
			}
		}
		if x.isL && len(x.list) >= 2 && x.list[0].atom == "_" {
			switch x.list[1].atom {
			case "+zero":
				m.F = 0
				return m, true
			case "-zero":
				m.F = math.Copysign(0, -1)
				return m, true
			case "+oo":
				m.F = math.Inf(1)
				return m, true
			case "-oo":
				m.F = math.Inf(-1)
				return m, true
			case "NaN":
				m.F = math.NaN()
				return m, true
			}
		}
	}
	return m, false
}

// ---------- solver back ends ----------

type Backend struct {
	Name string
	Args func(timeoutS int, fp, str bool) []string
	// capabilities
	NoFP, NoStr bool
}

var backends = map[string]*Backend{
	"z3": {Name: "z3", Args: func(t int, fp, str bool) []string {
		return []string{"z3", "-in", fmt.Sprintf("-T:%d", t)}
	}},
	"z3-new": {Name: "z3-new", Args: func(t int, fp, str bool) []string {
		return []string{"z3-new", "-in", fmt.Sprintf("-T:%d", t)}
	}},
	"cvc5": {Name: "cvc5", Args: func(t int, fp, str bool) []string {
		a := []string{"cvc5", "--lang=smt2", "--produce-models", fmt.Sprintf("--tlimit=%d", t*1000)}
		if str {
			a = append(a, "--strings-exp")
		}
		return a
	}},
	"cvc5-int": {Name: "cvc5-int", NoFP: true, NoStr: true, Args: func(t int, fp, str bool) []string {
		return []string{"cvc5", "--lang=smt2", "--produce-models", "--solve-bv-as-int=sum", fmt.Sprintf("--tlimit=%d", t*1000)}
	}},
}

type SolveResult struct {
	Verdict  string // sat, unsat, unknown
	Backend  string
	Model    map[string]MVal
	Elapsed  float64
	Per      map[string]string // per-backend verdicts (when all are awaited)
	ErrLines []string
}

type solverStats struct {
	mu      sync.Mutex
	queries int64
	timeBy  map[string]float64
	byVerd  map[string]int
	diffs   int
	incQ    int64
	incTime float64
}

var gStats = &solverStats{timeBy: map[string]float64{}, byVerd: map[string]int{}}

var dumpSeq int64

var solverSem = make(chan struct{}, 24)

func runOneShot(ctx context.Context, be *Backend, script string, timeoutS int, fp, str bool) (string, string, float64) {
	solverSem <- struct{}{}
	defer func() { <-solverSem }()
	args := be.Args(timeoutS, fp, str)
	cctx, cancel := context.WithTimeout(ctx, time.Duration(timeoutS+5)*time.Second)
	defer cancel()
	cmd := exec.CommandContext(cctx, args[0], args[1:]...)
	cmd.Stdin = strings.NewReader(script)
	t0 := time.Now()
	out, _ := cmd.CombinedOutput()
	el := time.Since(t0).Seconds()
	o := string(out)
	verdict := "unknown"
	for _, ln := range strings.Split(o, "\n") {
		ln = strings.TrimSpace(ln)
		if ln == "sat" || ln == "unsat" {
			verdict = ln
			break
		}
		if ln == "unknown" || ln == "timeout" {
			break
		}
	}
	if strings.Contains(o, "(error") {
		// an error anywhere makes the answer unusable, except errors produced by
		// get-value after unsat (we only send get-value guarded by sat in a second phase)
		verdict = "error"
	}
	return verdict, o, el
}

// SolvePortfolio decides (and asserts...) with several back ends in parallel.
// asserts: list of Bool terms to assert conjunctively. vars: variables to get values for.
func SolvePortfolio(asserts []*Term, vars []*Term, names []string, timeoutS int, waitAll bool) SolveResult {
	sc := NewScript()
	fp, str := usesTheory(asserts)
	sc.Raw("(set-option :produce-models true)")
	sc.Raw("(set-logic ALL)")
	for _, v := range vars {
		sc.Define(v)
	}
	for _, a := range asserts {
		sc.Assert(a)
	}
	sc.Raw("(check-sat)")
	base := sc.String()
	if d := os.Getenv("GOSYM_DUMP"); d != "" {
		n := atomic.AddInt64(&dumpSeq, 1)
		os.WriteFile(fmt.Sprintf("%s/q%03d.smt2", d, n), []byte(base), 0o644)
	}
	withModel := base
	if len(vars) > 0 {
		var sb strings.Builder
		sb.WriteString("(get-value (")
		for _, v := range vars {
			sb.WriteString(v.s + " ")
		}
		sb.WriteString("))\n")
		withModel = base + sb.String()
	}
	type ans struct {
		be      string
		verdict string
		out     string
		el      float64
	}
	ctx, cancel := context.WithCancel(context.Background())
	defer cancel()
	ch := make(chan ans, len(names))
	n := 0
	for _, nm := range names {
		be := backends[nm]
		if be == nil || (fp && be.NoFP) || (str && be.NoStr) {
			continue
		}
		n++
		go func(be *Backend) {
			v, o, el := runOneShot(ctx, be, base, timeoutS, fp, str)
			ch <- ans{be.Name, v, o, el}
		}(be)
	}
	res := SolveResult{Verdict: "unknown", Per: map[string]string{}}
	t0 := time.Now()
	var first *ans
	for i := 0; i < n; i++ {
		a := <-ch
		gStats.mu.Lock()
		gStats.timeBy[a.be] += a.el
		gStats.mu.Unlock()
		res.Per[a.be] = a.verdict
		if a.verdict == "error" {
			res.ErrLines = append(res.ErrLines, a.be+": "+firstErr(a.out))
		}
		if a.verdict == "sat" || a.verdict == "unsat" {
			if first == nil {
				aa := a
				first = &aa
				if !waitAll {
					cancel()
					break
				}
			} else if first.verdict != a.verdict {
				res.Verdict = "disagree"
				gStats.mu.Lock()
				gStats.diffs++
				gStats.mu.Unlock()
			}
		}
	}
	res.Elapsed = time.Since(t0).Seconds()
	if first != nil && res.Verdict != "disagree" {
		res.Verdict = first.verdict
		res.Backend = first.be
	}
	atomic.AddInt64(&gStats.queries, 1)
	gStats.mu.Lock()
	gStats.byVerd[res.Verdict]++
	gStats.mu.Unlock()
	if res.Verdict == "sat" && len(vars) > 0 {
		// second phase: get a model from the winning back end (or z3 as fallback)
		order := []string{res.Backend, "z3", "cvc5"}
		for _, nm := range order {
			be := backends[nm]
			if be == nil || (fp && be.NoFP) || (str && be.NoStr) {
				continue
			}
			v, o, _ := runOneShot(context.Background(), be, withModel, timeoutS, fp, str)
			if v != "sat" {
				continue
			}
			m := parseModel(o, vars)
			if m != nil {
				res.Model = m
				break
			}
		}
		if res.Model == nil {
			res.Verdict = "unknown"
			res.ErrLines = append(res.ErrLines, "sat but no model could be parsed")
		}
	}
	return res
}

func firstErr(o string) string {
	i := strings.Index(o, "(error")
	if i < 0 {
		return ""
	}
	j := strings.IndexByte(o[i:], '\n')
	if j < 0 {
		j = len(o) - i
	}
	return o[i : i+j]
}

func parseModel(out string, vars []*Term) map[string]MVal {
	i := strings.Index(out, "sat")
	if i < 0 {
		return nil
	}
	rest := out[i+3:]
	xs := parseSexps(rest)
	m := map[string]MVal{}
	byName := map[string]*Term{}
	for _, v := range vars {
		byName[v.s] = v
	}
	for _, x := range xs {
		if !x.isL {
			continue
		}
		for _, pr := range x.list {
			if pr.isL && len(pr.list) == 2 && !pr.list[0].isL {
				if v, ok := byName[pr.list[0].atom]; ok {
					mv, ok2 := parseModelValue(pr.list[1], v.sort)
					if !ok2 {
						return nil
					}
					m[v.s] = mv
				}
			}
		}
	}
	if len(m) != len(vars) {
		return nil
	}
	return m
}

// ---------- incremental solver for feasibility ----------

type IncSolver struct {
	cmd     *exec.Cmd
	in      io.WriteCloser
	out     *bufio.Reader
	sc      *Script
	depth   int
	name    string
	dead    bool
	tmoMs   int
	nq      int
	withStr bool
}

func NewIncSolver(kind string, tmoMs int) *IncSolver {
	s := &IncSolver{sc: NewScript(), name: kind, tmoMs: tmoMs}
	s.start()
	return s
}

func (s *IncSolver) start() {
	var cmd *exec.Cmd
	switch s.name {
	case "cvc5":
		cmd = exec.Command("cvc5", "--lang=smt2", "--incremental", "--produce-models", "--strings-exp", fmt.Sprintf("--tlimit-per=%d", s.tmoMs))
	case "cvc5-int":
		cmd = exec.Command("cvc5", "--lang=smt2", "--incremental", "--produce-models", "--solve-bv-as-int=sum", fmt.Sprintf("--tlimit-per=%d", s.tmoMs))
	default:
		cmd = exec.Command("z3", "-in", fmt.Sprintf("-t:%d", s.tmoMs))
	}
	in, _ := cmd.StdinPipe()
	out, _ := cmd.StdoutPipe()
	cmd.Stderr = cmd.Stdout
	if err := cmd.Start(); err != nil {
		panic(err)
	}
	if p := os.Getenv("GOSYM_INCLOG"); p != "" && incLog == nil {
		incLog, _ = os.Create(p)
	}
	s.cmd, s.in, s.out = cmd, in, bufio.NewReaderSize(out, 1<<16)
	s.sc = NewScript()
	s.depth = 0
	s.dead = false
	io.WriteString(s.in, "(set-option :global-declarations true)\n(set-logic ALL)\n")
}

func (s *IncSolver) Close() {
	if s.cmd != nil && s.cmd.Process != nil {
		s.in.Close()
		s.cmd.Process.Kill()
		s.cmd.Wait()
	}
}

var incLog *os.File

func (s *IncSolver) send(txt string) {
	if incLog != nil {
		incLog.WriteString(txt)
	}
	if _, err := io.WriteString(s.in, txt); err != nil {
		s.dead = true
	}
}

func (s *IncSolver) Push() {
	s.send("(push 1)\n")
	s.depth++
}
func (s *IncSolver) PopTo(d int) {
	if d < s.depth {
		s.send(fmt.Sprintf("(pop %d)\n", s.depth-d))
		s.depth = d
	}
}
func (s *IncSolver) Assert(t *Term) {
	s.sc.Assert(t)
	s.send(s.sc.Take())
}

// Check returns "sat", "unsat" or "unknown".
func (s *IncSolver) Check() string {
	if s.dead {
		return "unknown"
	}
	t0 := time.Now()
	s.send("(check-sat)\n")
	s.nq++
	res := "unknown"
	done := make(chan string, 1)
	go func() {
		for {
			ln, err := s.out.ReadString('\n')
			if err != nil {
				done <- "dead"
				return
			}
			ln = strings.TrimSpace(ln)
			if ln == "sat" || ln == "unsat" || ln == "unknown" || ln == "timeout" {
				done <- ln
				return
			}
			if strings.HasPrefix(ln, "(error") {
				done <- "error:" + ln
				return
			}
		}
	}()
	select {
	case r := <-done:
		switch {
		case r == "sat" || r == "unsat":
			res = r
		case r == "dead":
			s.dead = true
		case strings.HasPrefix(r, "error:"):
			res = "unknown"
			if verbose {
				fmt.Println("inc solver error:", r)
			}
		}
	case <-time.After(time.Duration(s.tmoMs)*time.Millisecond + 10*time.Second):
		s.dead = true
		s.cmd.Process.Kill()
	}
	el := time.Since(t0).Seconds()
	atomic.AddInt64(&gStats.incQ, 1)
	gStats.mu.Lock()
	gStats.incTime += el
	gStats.mu.Unlock()
	return res
}

// CheckWith: is (stack ∧ t) satisfiable?
func (s *IncSolver) CheckWith(t *Term) string {
	r, _ := s.CheckWithModel(t, nil)
	return r
}

// CheckWithModel additionally returns values of the given variables (those already
// declared to this solver) when the answer is sat.
func (s *IncSolver) CheckWithModel(t *Term, vars []*Term) (string, map[string]MVal) {
	if s.dead {
		return "unknown", nil
	}
	s.sc.Define(t)
	s.send(s.sc.Take())
	s.send("(push 1)\n")
	s.send(fmt.Sprintf("(assert %s)\n", t.ref()))
	r := s.Check()
	var model map[string]MVal
	_ = model
	if r == "sat" && len(vars) > 0 && !s.dead {
		var sb strings.Builder
		var vs []*Term
		sb.WriteString("(get-value (")
		for _, v := range vars {
			if s.sc.emitted[v.id] {
				sb.WriteString(v.s + " ")
				vs = append(vs, v)
			}
		}
		sb.WriteString("))\n")
		if len(vs) > 0 {
			s.send(sb.String())
			if txt, ok := s.readSexp(); ok {
				model = parseModel("sat "+txt, vs)
			}
		} else {
			model = map[string]MVal{}
		}
	}
	if !s.dead {
		s.send("(pop 1)\n")
	}
	return r, model
}

// readSexp reads one balanced s-expression from the solver's output.
func (s *IncSolver) readSexp() (string, bool) {
	var sb strings.Builder
	depth := 0
	started := false
	inStr := false
	deadline := time.Now().Add(20 * time.Second)
	for time.Now().Before(deadline) {
		b, err := s.out.ReadByte()
		if err != nil {
			s.dead = true
			return "", false
		}
		sb.WriteByte(b)
		if inStr {
			if b == '"' {
				inStr = false
			}
			continue
		}
		switch b {
		case '"':
			inStr = true
		case '(':
			depth++
			started = true
		case ')':
			depth--
			if started && depth == 0 {
				txt := sb.String()
				if strings.Contains(txt, "(error") {
					return txt, false
				}
				return txt, true
			}
		}
	}
	s.dead = true
	return "", false
}
