package main

import (
	"encoding/json"
	"flag"
	"fmt"
	"os"
	"os/exec"
	"path/filepath"
	"regexp"
	"sort"
	"strconv"
	"strings"
	"sync"
	"time"

	"golang.org/x/tools/go/packages"
	"golang.org/x/tools/go/ssa"
	"golang.org/x/tools/go/ssa/ssautil"
)

const oxyRoot = "github.com/vulcand/oxy/v2"

var (
	repoDir  = "/repo"
	verifDir = "/verif"
)

// harnessOverlay maps virtual files in /repo to harness sources in /verif/harness.
func harnessOverlay(native bool) (map[string][]byte, []string, error) {
	ov := map[string][]byte{}
	var pkgs []string
	hroot := filepath.Join(verifDir, "harness")
	rt, err := os.ReadFile(filepath.Join(hroot, "rt", "zz_verif_rt.go.tmpl"))
	if err != nil {
		return nil, nil, err
	}
	err = filepath.Walk(hroot, func(p string, info os.FileInfo, err error) error {
		if err != nil || info.IsDir() || !strings.HasSuffix(p, ".go") {
			return err
		}
		rel, _ := filepath.Rel(hroot, p)
		dir := filepath.Dir(rel)
		if dir == "rt" {
			return nil
		}
		if strings.HasSuffix(p, "_test.go") && !native {
			return nil
		}
		b, err := os.ReadFile(p)
		if err != nil {
			return err
		}
		ov[filepath.Join(repoDir, dir, filepath.Base(p))] = b
		found := false
		for _, d := range pkgs {
			if d == dir {
				found = true
			}
		}
		if !found {
			pkgs = append(pkgs, dir)
		}
		return nil
	})
	if err != nil {
		return nil, nil, err
	}
	for _, d := range pkgs {
		name, err := packageName(filepath.Join(repoDir, d))
		if err != nil {
			return nil, nil, err
		}
		src := strings.Replace(string(rt), "package PKG", "package "+name, 1)
		if strings.HasSuffix(d, "holsterv4/clock") {
			src = strings.Replace(src, "\t\""+clockPkg+"\"\n", "", 1)
			src = strings.ReplaceAll(src, "clock.Freeze", "Freeze")
			src = strings.ReplaceAll(src, "clock.Advance", "Advance")
		}
		ov[filepath.Join(repoDir, d, "zz_verif_rt.go")] = []byte(src)
	}
	sort.Strings(pkgs)
	return ov, pkgs, nil
}

func packageName(dir string) (string, error) {
	ents, err := os.ReadDir(dir)
	if err != nil {
		return "", err
	}
	re := regexp.MustCompile(`(?m)^package\s+(\w+)`)
	for _, e := range ents {
		if strings.HasSuffix(e.Name(), ".go") && !strings.HasSuffix(e.Name(), "_test.go") {
			b, err := os.ReadFile(filepath.Join(dir, e.Name()))
			if err != nil {
				continue
			}
			if m := re.FindSubmatch(b); m != nil {
				return string(m[1]), nil
			}
		}
	}
	return "", fmt.Errorf("no package clause in %s", dir)
}

// excludedHarness: harness files dropped because they no longer compile against /repo
// (a refactoring of private fields); their jobs become inconclusive, the others still run.
var excludedHarness []string

func loadProgram(pkgDirs []string) (*ssa.Program, map[string]*ssa.Package, error) {
	var lastErr error
	for round := 0; round < 4; round++ {
		prog, pkgs, bad, err := loadProgramOnce(pkgDirs)
		if err == nil {
			return prog, pkgs, nil
		}
		lastErr = err
		if len(bad) == 0 {
			break
		}
		fmt.Printf("note: harness files dropped because they do not compile against this tree: %v\n%v\n", bad, err)
		excludedHarness = append(excludedHarness, bad...)
	}
	return nil, nil, lastErr
}

func loadProgramOnce(pkgDirs []string) (*ssa.Program, map[string]*ssa.Package, []string, error) {
	ov, _, err := harnessOverlay(false)
	if err != nil {
		return nil, nil, nil, err
	}
	for _, f := range excludedHarness {
		delete(ov, f)
	}
	cfg := &packages.Config{
		Mode:    packages.LoadAllSyntax,
		Dir:     repoDir,
		Overlay: ov,
		Env:     append(os.Environ(), "GOFLAGS=-mod=mod", "GOPROXY=off", "GOSUMDB=off", "GOTOOLCHAIN=local"),
	}
	var pats []string
	for _, d := range pkgDirs {
		pats = append(pats, "./"+d)
	}
	initial, err := packages.Load(cfg, pats...)
	if err != nil {
		return nil, nil, nil, err
	}
	var errs []string
	packages.Visit(initial, nil, func(p *packages.Package) {
		for _, e := range p.Errors {
			if strings.HasPrefix(p.PkgPath, oxyRoot) {
				errs = append(errs, e.Error())
			}
		}
	})
	if len(errs) > 0 {
		// harness files named in the errors (never the runtime file) can be dropped
		badSet := map[string]bool{}
		re := regexp.MustCompile(`(/[^ :]*zz_verif_[A-Za-z0-9_]+\.go):`)
		for _, e := range errs {
			if m := re.FindStringSubmatch(e); m != nil && !strings.HasSuffix(m[1], "zz_verif_rt.go") {
				badSet[m[1]] = true
			}
		}
		var bad []string
		for f := range badSet {
			bad = append(bad, f)
		}
		return nil, nil, bad, fmt.Errorf("load errors (harness no longer compiles against /repo?):\n%s", strings.Join(errs, "\n"))
	}
	prog, pkgs := ssautil.AllPackages(initial, ssa.InstantiateGenerics)
	prog.Build()
	out := map[string]*ssa.Package{}
	for i, p := range pkgs {
		if p == nil {
			continue
		}
		path := initial[i].PkgPath
		out[strings.TrimPrefix(strings.TrimPrefix(path, oxyRoot), "/")] = p
	}
	return prog, out, nil, nil
}

// ---------- known findings ----------

type knownFinding struct {
	Prop  string
	Label string
	Text  string
}

func loadKnown() []knownFinding {
	b, err := os.ReadFile(filepath.Join(verifDir, "known_findings.txt"))
	if err != nil {
		return nil
	}
	var out []knownFinding
	re := regexp.MustCompile(`^known:\s+property=(\S+)\s+assert=(\S+)\s+(.*)$`)
	for _, ln := range strings.Split(string(b), "\n") {
		if m := re.FindStringSubmatch(strings.TrimSpace(ln)); m != nil {
			out = append(out, knownFinding{m[1], m[2], m[3]})
		}
	}
	return out
}

// ---------- check driver ----------

type replayFile struct {
	Property string            `json:"property"`
	Job      string            `json:"job"`
	Pkg      string            `json:"pkg"`
	Harness  string            `json:"harness"`
	Label    string            `json:"label"`
	Grid     int64             `json:"grid"`
	Params   map[string]int64  `json:"params"`
	Inputs   map[string]string `json:"inputs"`
	Pos      string            `json:"pos"`
}

func modelToStrings(m map[string]MVal) map[string]string {
	out := map[string]string{}
	for k, v := range m {
		switch v.Sort.K {
		case SBool:
			out[k] = strconv.FormatBool(v.U != 0)
		case SBV:
			if v.Big != nil {
				out[k] = v.Big.String()
			} else if v.Sort.W > 64 {
				out[k] = strconv.FormatUint(v.U, 10)
			} else {
				out[k] = strconv.FormatInt(signExt(v.U, v.Sort.W), 10)
			}
		case SFP:
			out[k] = strconv.FormatFloat(v.F, 'g', -1, 64)
		case SStr:
			out[k] = v.S
		case SInt:
			out[k] = strconv.FormatInt(v.I, 10)
		}
	}
	return out
}

func runCheck(prop, tier string, jobFilter string, workers int, seed int64) int {
	t0 := time.Now()
	jobs := jobsFor(prop, tier)
	if len(jobs) == 0 {
		fmt.Printf("INCONCLUSIVE property=%s reason=no-jobs-defined\n", prop)
		return 2
	}
	if jobFilter != "" {
		re := regexp.MustCompile(jobFilter)
		var sel []*Job
		for _, j := range jobs {
			if re.MatchString(j.Name) || re.MatchString(j.Harness) {
				sel = append(sel, j)
			}
		}
		jobs = sel
	}
	known := loadKnown()
	pkgSet := map[string]bool{}
	for _, j := range jobs {
		pkgSet[j.Pkg] = true
	}
	var dirs []string
	for d := range pkgSet {
		dirs = append(dirs, d)
	}
	sort.Strings(dirs)
	tl := time.Now()
	prog, pkgs, err := loadProgram(dirs)
	if err != nil {
		fmt.Printf("INCONCLUSIVE property=%s reason=load-failed\n%v\n", prop, err)
		writeEvidence(prop, tier, seed, nil, nil, 0, time.Since(t0).Seconds(), []string{"load failed: " + err.Error()}, 0)
		return 2
	}
	loadS := time.Since(tl).Seconds()
	results := make([]*JobResult, len(jobs))
	var wg sync.WaitGroup
	sem := make(chan struct{}, workers)
	for i, j := range jobs {
		for _, k := range known {
			if k.Prop == prop {
				if j.Known == nil {
					j.Known = map[string]bool{}
				}
				j.Known[k.Label] = true
			}
		}
		wg.Add(1)
		go func(i int, j *Job) {
			defer wg.Done()
			sem <- struct{}{}
			defer func() { <-sem }()
			results[i] = runJob(prog, pkgs, j)
			r := results[i]
			nd, nv, nu := 0, 0, 0
			for _, o := range r.Obligations {
				switch o.Verdict {
				case "discharged", "trivial":
					nd++
				case "violated":
					nv++
				default:
					nu++
				}
			}
			fmt.Printf("[%s] %-40s paths=%d obligations=%d discharged=%d violated=%d unknown=%d incon=%d %.1fs %s\n", prop, j.Name, r.Paths, len(r.Obligations), nd, nv, nu, len(r.Incon), r.Wall, r.Stats)
		}(i, j)
	}
	wg.Wait()

	// classify
	exit := 0
	var inconclusive []string
	violations := 0
	type viol struct {
		r  *JobResult
		ob *Obligation
	}
	var viols []viol
	knownHit := map[string]bool{}
	for _, r := range results {
		for _, in := range r.Incon {
			inconclusive = append(inconclusive, r.Job.Name+": "+in)
		}
		if !r.Reached["end"] && len(r.Incon) == 0 {
			inconclusive = append(inconclusive, r.Job.Name+": vacuous (no feasible path reaches verifReach(\"end\"))")
		}
		seenLbl := map[string]int{}
		for _, o := range r.Obligations {
			switch o.Verdict {
			case "violated":
				if seenLbl[o.Label] < 4 { // up to four counterexamples per label and job are replayed
					seenLbl[o.Label]++
					viols = append(viols, viol{r, o})
				}
			case "unknown":
				inconclusive = append(inconclusive, fmt.Sprintf("%s: assertion %q undecided (%v %v)", r.Job.Name, o.Label, o.Per, o.ErrLines))
			}
		}
		for l := range r.KnownSeen {
			knownHit[l] = true
		}
	}
	os.MkdirAll(filepath.Join(outDir(), "replays"), 0o755)
	confirmed := map[string]bool{}
	nTried := map[string]int{}
	pendingIncon := map[string]string{}
	for _, v := range viols {
		key := v.r.Job.Name + "|" + v.ob.Label
		if confirmed[key] {
			continue
		}
		rf := replayFile{Property: prop, Job: v.r.Job.Name, Pkg: v.r.Job.Pkg, Harness: v.r.Job.Harness, Label: v.ob.Label,
			Grid: v.r.Job.Grid, Params: v.r.Job.Params, Inputs: modelToStrings(v.ob.Model), Pos: v.ob.Pos}
		name := fmt.Sprintf("%s-%s-%s.json", prop, v.r.Job.Harness, sanitize(v.r.Job.Name+"-"+v.ob.Label))
		if nTried[key] > 0 {
			name = fmt.Sprintf("%s-%s-%s-alt%d.json", prop, v.r.Job.Harness, sanitize(v.r.Job.Name+"-"+v.ob.Label), nTried[key])
		}
		nTried[key]++
		path := filepath.Join(outDir(), "replays", name)
		b, _ := json.MarshalIndent(rf, "", " ")
		os.WriteFile(path, b, 0o644)
		ok, out := nativeReplay(path)
		if ok {
			confirmed[key] = true
			delete(pendingIncon, key)
			violations++
			fmt.Printf("VIOLATION property=%s replay=%s\n", prop, path)
			fmt.Printf("  job=%s assertion=%q at %s\n  inputs=%v\n", v.r.Job.Name, v.ob.Label, v.ob.Pos, rf.Inputs)
			exit = 1
		} else {
			pendingIncon[key] = fmt.Sprintf("%s: counterexample for %q did not reproduce natively (replay-mismatch) %s", v.r.Job.Name, v.ob.Label, path)
			if verbose {
				fmt.Println(out)
			}
		}
	}
	for _, msg := range pendingIncon {
		inconclusive = append(inconclusive, msg)
	}
	// differential validation of the executor and its models: witness inputs of jobs that
	// reached their end are replayed natively; the native run must not fail any assertion
	// the engine discharged (counted in traces_validated_against_impl)
	gDiffTraces, gDiffMismatch = 0, nil
	if exit == 0 {
		maxW := 2
		if tier == "thorough" {
			maxW = 6
		}
		done := map[string]bool{}
		for _, r := range results {
			if r == nil || r.Witness == nil || len(r.Incon) > 0 || done[r.Job.Harness] || len(done) >= maxW {
				continue
			}
			done[r.Job.Harness] = true
			rf := replayFile{Property: prop, Job: r.Job.Name, Pkg: r.Job.Pkg, Harness: r.Job.Harness, Label: "", Grid: r.Job.Grid, Params: r.Job.Params, Inputs: modelToStrings(r.Witness)}
			path := filepath.Join(outDir(), "replays", fmt.Sprintf("%s-%s-witness.json", prop, r.Job.Harness))
			b, _ := json.MarshalIndent(rf, "", " ")
			os.WriteFile(path, b, 0o644)
			_, out := nativeReplay(path)
			switch {
			case strings.Contains(out, "VERIF-ASSERT-FAILED") || strings.Contains(out, "VERIF-PANIC") || strings.Contains(out, "VERIF-ASSUME-FAILED"):
				gDiffMismatch = append(gDiffMismatch, r.Job.Name)
			case strings.Contains(out, "ok  \t") || strings.Contains(out, "\nok"):
				gDiffTraces++
			default:
				gDiffMismatch = append(gDiffMismatch, r.Job.Name+" (native run failed to build or run)")
			}
		}
	}
	for _, k := range known {
		if k.Prop != prop {
			continue
		}
		if knownHit[k.Label] {
			fmt.Printf("KNOWN-FINDING: property=%s assert=%s %s\n", prop, k.Label, k.Text)
		} else {
			fmt.Printf("note: listed known finding assert=%s was not exhibited by this run\n", k.Label)
		}
	}
	if exit == 0 && len(inconclusive) > 0 {
		exit = 2
	}
	for _, in := range inconclusive {
		fmt.Printf("INCONCLUSIVE property=%s reason=%s\n", prop, in)
	}
	wall := time.Since(t0).Seconds()
	writeEvidence(prop, tier, seed, jobs, results, violations, wall, inconclusive, loadS)
	nOb, nDis := 0, 0
	for _, r := range results {
		for _, o := range r.Obligations {
			nOb++
			if o.Verdict == "discharged" || o.Verdict == "trivial" {
				nDis++
			}
		}
	}
	fmt.Printf("%s %s: jobs=%d obligations=%d discharged=%d violations=%d inconclusive=%d wall=%.1fs exit=%d\n", prop, tier, len(jobs), nOb, nDis, violations, len(inconclusive), wall, exit)
	return exit
}

func writeEvidence(prop, tier string, seed int64, jobs []*Job, results []*JobResult, violations int, wall float64, incon []string, loadS float64) {
	states, trans := 0, 0
	nOb, nDis := 0, 0
	funcs := map[string]bool{}
	modelsU := map[string]bool{}
	var samples []interface{}
	var bounds []string
	reachOK := 0
	maxUnw := 0
	for _, r := range results {
		if r == nil {
			continue
		}
		states += r.Paths
		trans += r.BranchQ
		for _, f := range r.Funcs {
			funcs[f] = true
		}
		for _, m := range r.Models {
			modelsU[m] = true
		}
		if r.Reached["end"] {
			reachOK++
		}
		if r.MaxUnwind > maxUnw {
			maxUnw = r.MaxUnwind
		}
		byLabel := map[string][3]int{}
		for _, o := range r.Obligations {
			nOb++
			c := byLabel[o.Label]
			switch o.Verdict {
			case "discharged", "trivial":
				nDis++
				c[0]++
			case "violated":
				c[1]++
			default:
				c[2]++
			}
			byLabel[o.Label] = c
		}
		s := map[string]interface{}{
			"job": r.Job.Name, "harness": r.Job.Pkg + "." + r.Job.Harness, "params": r.Job.Params,
			"bounds": r.Job.Bounds, "paths": r.Paths, "path_ends": r.Ended, "wall_s": round2(r.Wall),
			"assertions": byLabel,
		}
		samples = append(samples, s)
		if r.Job.Bounds != "" {
			bounds = append(bounds, r.Job.Name+": "+r.Job.Bounds)
		}
	}
	gStats.mu.Lock()
	solverTime := map[string]float64{}
	for k, v := range gStats.timeBy {
		solverTime[k] = round2(v)
	}
	solverTime["z3-incremental"] = round2(gStats.incTime)
	verd := map[string]int{}
	for k, v := range gStats.byVerd {
		verd[k] = v
	}
	q := gStats.queries
	iq := gStats.incQ
	gStats.mu.Unlock()
	if states == 0 {
		states = 0
	}
	cov := map[string]interface{}{
		"states":                        states,
		"transitions":                   trans,
		"traces_validated_against_impl": gDiffTraces,
		"witness_runs_differing_natively": gDiffMismatch,
		"samples":                       samples,
		"obligations":                   nOb,
		"discharged":                    nDis,
		"functions_encoded":             sortedKeys(funcs),
		"models_used":                   sortedKeys(modelsU),
		"bounds":                        bounds,
		"portfolio_queries":             q,
		"incremental_queries":           iq,
		"portfolio_verdicts":            verd,
		"solver_time_s":                 solverTime,
		"vacuity_witnesses_reached":     reachOK,
		"jobs":                          len(results),
		"max_loop_iterations_seen":      maxUnw,
		"inconclusive":                  incon,
		"load_and_ssa_build_s":          round2(loadS),
		"explanation":                   "states = feasible symbolic paths explored (each covers all inputs satisfying its path condition); transitions = solver-decided branch alternatives; obligations = assertion instances checked with pathCond ∧ ¬assertion; SSA rebuilt from /repo on this run",
	}
	ev := map[string]interface{}{
		"property_id": prop,
		"tier":        tier,
		"seed":        seed,
		"level":       "model_checking",
		"coverage":    cov,
		"assumptions": []string{
			"go/packages + go/ssa front end faithful to the compiler",
			"executor instruction semantics and the listed models (models_used) faithful to the Go runtime / standard library; validated by differential runs and by native replay of every counterexample",
			"SMT solvers z3 4.8.12 / z3 5.1.0 / cvc5 1.0 sound; any (error line makes a query inconclusive",
			"bounds as listed per job; nothing is claimed outside them",
		},
		"wall_s":     round2(wall),
		"violations": violations,
	}
	os.MkdirAll(filepath.Join(outDir(), "evidence"), 0o755)
	b, _ := json.MarshalIndent(ev, "", " ")
	os.WriteFile(filepath.Join(outDir(), "evidence", prop+".json"), b, 0o644)
}

var gDiffTraces int
var gDiffMismatch []string

func round2(f float64) float64 { return float64(int64(f*100+0.5)) / 100 }

// ---------- native replay ----------

func nativeReplay(path string) (bool, string) {
	b, err := os.ReadFile(path)
	if err != nil {
		return false, err.Error()
	}
	var rf replayFile
	if err := json.Unmarshal(b, &rf); err != nil {
		return false, err.Error()
	}
	ov, _, err := harnessOverlay(true)
	if err != nil {
		return false, err.Error()
	}
	tmp, err := os.MkdirTemp("", "gosym-replay-")
	if err != nil {
		return false, err.Error()
	}
	defer os.RemoveAll(tmp)
	for _, f := range excludedHarness {
		delete(ov, f)
	}
	repl := map[string]string{}
	realToVirt := map[string]string{}
	i := 0
	for virt, content := range ov {
		real := filepath.Join(tmp, fmt.Sprintf("f%d_%s", i, filepath.Base(virt)))
		i++
		os.WriteFile(real, content, 0o644)
		repl[virt] = real
		realToVirt[filepath.Base(real)] = virt
	}
	// generated test driver
	pkgName, err := packageName(filepath.Join(repoDir, rf.Pkg))
	if err != nil {
		return false, err.Error()
	}
	drv := fmt.Sprintf(`package %s

import "testing"

func TestVerifReplay(t *testing.T) {
	verifNativeRun(t, %q, %s)
}
`, pkgName, rf.Harness, rf.Harness)
	dp := filepath.Join(tmp, "driver_test.go")
	os.WriteFile(dp, []byte(drv), 0o644)
	repl[filepath.Join(repoDir, rf.Pkg, "zz_verif_driver_test.go")] = dp
	ovp := filepath.Join(tmp, "overlay.json")
	writeOverlay := func() {
		ovj, _ := json.Marshal(map[string]interface{}{"Replace": repl})
		os.WriteFile(ovp, ovj, 0o644)
	}
	writeOverlay()
	tries := 1
	if strings.Contains(string(b), "maporder") {
		tries = 6
	}
	if strings.HasPrefix(rf.Label, "no-data-race/") {
		tries = 3 // whether the race detector sees the pair unordered depends on the native schedule
	}
	var out []byte
	for k := 0; k < tries; k++ {
		args := []string{"test", "-vet=off", "-count=1", "-run", "^TestVerifReplay$", "-overlay", ovp}
		race := strings.HasPrefix(rf.Label, "no-data-race/")
		if race {
			args = append(args, "-race")
		}
		args = append(args, "./"+rf.Pkg)
		cmd := exec.Command("go", args...)
		cmd.Dir = repoDir
		// a private temp directory: the spill-file assertions of the buffer harness look at
		// os.TempDir() and must not see files of other replays running at the same time
		privTmp := filepath.Join(tmp, "tmpdir")
		os.MkdirAll(privTmp, 0o755)
		cmd.Env = append(os.Environ(), "GOFLAGS=-mod=mod", "GOPROXY=off", "GOSUMDB=off", "GOTOOLCHAIN=local", "VERIF_REPLAY="+path, "TMPDIR="+privTmp)
		out, _ = cmd.CombinedOutput()
		if strings.Contains(string(out), "[build failed]") {
			// harness files that no longer compile against this tree are dropped (their jobs are
			// inconclusive anyway); the harness being replayed may still build
			dropped := false
			re := regexp.MustCompile(`(f[0-9]+_zz_verif_[A-Za-z0-9_]+\.go):`)
			for _, m := range re.FindAllStringSubmatch(string(out), -1) {
				if virt, ok := realToVirt[m[1]]; ok && !strings.HasSuffix(virt, "zz_verif_rt.go") {
					if _, still := repl[virt]; still {
						delete(repl, virt)
						dropped = true
					}
				}
			}
			if dropped && k < tries+2 {
				writeOverlay()
				tries++
				continue
			}
		}
		if race && strings.Contains(string(out), "WARNING: DATA RACE") {
			return true, string(out)
		}
		if strings.Contains(string(out), "VERIF-ASSERT-FAILED label="+rf.Label+"\n") || strings.Contains(string(out), "VERIF-ASSERT-FAILED label="+rf.Label+" ") {
			return true, string(out)
		}
		if rf.Label == "no-uncaught-panic" && strings.Contains(string(out), "VERIF-PANIC") {
			return true, string(out)
		}
	}
	return false, string(out)
}

// outDir: where evidence and replay files are written (normally the verification
// directory itself; scratch evaluations of seeded changes redirect it with GOSYM_OUT).
func outDir() string {
	if d := os.Getenv("GOSYM_OUT"); d != "" {
		return d
	}
	return verifDir
}

func main() {
	if wd, err := os.Getwd(); err == nil {
		if _, err := os.Stat(filepath.Join(wd, "harness", "rt")); err == nil {
			verifDir = wd
		}
	}
	if len(os.Args) < 2 {
		fmt.Println("usage: gosym check -prop Cxx -tier quick|thorough | gosym replay <file>")
		os.Exit(2)
	}
	switch os.Args[1] {
	case "check":
		fs := flag.NewFlagSet("check", flag.ExitOnError)
		prop := fs.String("prop", "", "property id")
		tier := fs.String("tier", "quick", "quick|thorough")
		jobf := fs.String("job", "", "regexp filter on job names")
		workers := fs.Int("workers", 14, "parallel jobs")
		fs.BoolVar(&verbose, "v", false, "verbose")
		fs.StringVar(&repoDir, "repo", "/repo", "repository under analysis")
		fs.Parse(os.Args[2:])
		if t := os.Getenv("VERIF_TIER"); t != "" && *tier == "" {
			*tier = t
		}
		seed := int64(0)
		if s := os.Getenv("VERIF_SEED"); s != "" {
			seed, _ = strconv.ParseInt(s, 10, 64)
		}
		os.Exit(runCheck(*prop, *tier, *jobf, *workers, seed))
	case "replay":
		fs := flag.NewFlagSet("replay", flag.ExitOnError)
		fs.StringVar(&repoDir, "repo", "/repo", "repository under analysis")
		fs.Parse(os.Args[2:])
		ok, out := nativeReplay(fs.Arg(0))
		fmt.Println(out)
		if ok {
			fmt.Println("REPRODUCED")
			os.Exit(1)
		}
		fmt.Println("NOT REPRODUCED")
		os.Exit(0)
	}
	os.Exit(2)
}
