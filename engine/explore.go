package main

import (
	"fmt"
	"os"
	"go/token"
	"sort"
	"strings"
	"time"

	"golang.org/x/tools/go/ssa"
)

type mapAccessRec struct {
	m     *mapV
	write bool
	locks string
}

// Job: one obligation = one harness entry point with one concrete parameter valuation.
type Job struct {
	Prop       string
	Name       string // obligation id, e.g. "O1/n=3"
	Pkg        string // import path suffix below oxy root ("roundrobin")
	Harness    string
	Params     map[string]int64
	Grid       int64
	Unwind     int
	UnwindFn   map[string]int
	Merge      map[string]bool
	MapPermMax int
	MapPermFns []string // when set: symbolic map iteration order only in these functions
	MaxSteps   int64
	MaxPaths   int
	Solvers    []string
	TimeoutS   int
	IncMs      int
	NoDiamond  bool
	Bounds     string // human-readable bound statement
	WaitAll    bool
	IncKind    string
	Known      map[string]bool
	Inductive  bool
	NoNarrow   bool
	MergeBlind bool // merged callees: treat every alternative as feasible (no solver)
	SkipInc    bool // assertions go straight to the portfolio
	BranchTimeoutS int
	// ExpectViolation: used by self-tests only
}

type JobResult struct {
	Job         *Job
	Obligations []*Obligation
	Paths       int
	Ended       map[string]int
	BranchQ     int
	Funcs       []string
	Reached     map[string]bool
	Incon       []string
	Models      []string
	Stubs       []string
	MaxUnwind   int
	Wall        float64
	Inputs      int
	KnownSeen   map[string]bool
	Stats       string
	Witness     map[string]MVal
}

var verbose bool

func (ex *Exec) resetPath() {
	ex.tracePos = 0
	ex.pcPos = 0
	ex.globals = map[*ssa.Global]*value{}
	ex.initDone = map[*ssa.Package]bool{}
	ex.fresh = map[string]int{}
	ex.inputs = nil
	ex.inputSeen = map[string]bool{}
	ex.clockSet = false
	ex.locks = map[*value]*lockState{}
	ex.lockOrder = nil
	ex.spawned = nil
	ex.ghost = map[string]value{}
	ex.depth = 0
	ex.steps = 0
	ex.journalOn = false
	ex.journal = nil
	ex.observed = nil
	ex.accessLog = nil
	ex.mapLog = nil
	ex.logAccess = false
	ex.sharedSet = nil
	ex.sharedMaps = nil
	ex.sharedOrder = nil
	ex.sharedRoots = nil
	ex.interleave = nil
	ex.lockHook = nil
	ex.inLockHook = false
	ex.cellNames = nil
	ex.nextID = 0
	ex.onces = map[*value]bool{}
	ex.files = newFileTable()
	ex.mergeSeq = 0
	ex.stubs = map[string]value{}
	ex.known = map[int]bool{}
	ex.bounds = map[int]ival{}
	ex.linForms = nil
}

func runJob(prog *ssa.Program, pkgs map[string]*ssa.Package, job *Job) (res *JobResult) {
	t0 := time.Now()
	res = &JobResult{Job: job, Ended: map[string]int{}, Reached: map[string]bool{}}
	defer func() { res.Wall = time.Since(t0).Seconds() }()
	pkg := pkgs[job.Pkg]
	if pkg == nil {
		res.Incon = append(res.Incon, "package not loaded: "+job.Pkg)
		return
	}
	fn := pkg.Func(job.Harness)
	if fn == nil {
		res.Incon = append(res.Incon, "harness not found: "+job.Harness)
		return
	}
	if job.Grid == 0 {
		job.Grid = 1
	}
	if job.Unwind == 0 {
		job.Unwind = 64
	}
	if job.MaxSteps == 0 {
		job.MaxSteps = 20_000_000
	}
	if job.MaxPaths == 0 {
		job.MaxPaths = 200000
	}
	if job.TimeoutS == 0 {
		job.TimeoutS = 60
	}
	if t := os.Getenv("GOSYM_TIMEOUT"); t != "" {
		fmt.Sscanf(t, "%d", &job.TimeoutS)
	}
	if job.IncMs == 0 {
		job.IncMs = 400
	}
	if job.BranchTimeoutS == 0 {
		job.BranchTimeoutS = 10
	}
	if len(job.Solvers) == 0 {
		job.Solvers = []string{"z3", "cvc5-int", "cvc5"}
	}
	ex := &Exec{prog: prog, tc: NewTermCtx(), job: job, params: job.Params, grid: job.Grid}
	kind := job.IncKind
	if kind == "" {
		kind = "cvc5-int"
	}
	if k := os.Getenv("GOSYM_INC"); k != "" {
		kind = k
	}
	ex.inc = NewIncSolver(kind, job.IncMs)
	defer ex.inc.Close()
	ex.pathsEnded = map[string]int{}
	ex.funcsSeen = map[*ssa.Function]bool{}
	ex.reachedAny = map[string]bool{}
	ex.stubsUsed = map[string]bool{}
	ex.modelsUsed = map[string]bool{}
	ex.mergeCache = map[string]*mergeEntry{}
	ex.knownSeen = map[string]bool{}

	for {
		ex.resetPath()
		ex.pathNo++
		end := ex.runPath(fn)
		ex.pathsEnded[end]++
		ex.paths++
		if verbose {
			fmt.Printf("  [%s %s] path %d ended: %s (trace %d, pc %d)\n", job.Prop, job.Name, ex.pathNo, end, len(ex.trace), len(ex.pathCond))
		}
		if strings.HasPrefix(end, "unsupported") || strings.HasPrefix(end, "unwind") || strings.HasPrefix(end, "budget") || strings.HasPrefix(end, "engine") {
			ex.incon = append(ex.incon, end)
			if len(ex.incon) > 20 {
				break
			}
		}
		nviol := 0
		for _, o := range ex.obligations {
			if o.Verdict == "violated" {
				nviol++
			}
		}
		if nviol >= 8 {
			break // enough counterexamples; the check fails anyway
		}
		if ex.paths >= job.MaxPaths {
			ex.incon = append(ex.incon, fmt.Sprintf("path budget %d exhausted", job.MaxPaths))
			break
		}
		if ex.inc.dead && !ex.restartIncFresh() {
			ex.incon = append(ex.incon, "incremental solver died")
			break
		}
		if !ex.backtrack() {
			break
		}
	}
	res.Obligations = ex.obligations
	res.Paths = ex.paths
	res.Ended = ex.pathsEnded
	res.BranchQ = ex.branchQ
	res.Reached = ex.reachedAny
	res.Incon = ex.incon
	res.MaxUnwind = ex.maxUnwind
	res.Stats = fmt.Sprintf("incQ=%d restarts=%d oneShotBranch=%d cacheHits=%d", ex.inc.nq, ex.restarts, ex.oneShotBranch, ex.cacheHits)
	res.KnownSeen = ex.knownSeen
	res.Witness = ex.witness
	for f := range ex.funcsSeen {
		if f.Pkg != nil && ex.interpPkg(f.Pkg) && !strings.Contains(f.Name(), "verif") && !strings.HasPrefix(f.Name(), "Verif") && !strings.HasPrefix(f.Name(), "vf") {
			res.Funcs = append(res.Funcs, f.String())
		}
	}
	sort.Strings(res.Funcs)
	res.Models = sortedKeys(ex.modelsUsed)
	res.Stubs = sortedKeys(ex.stubsUsed)
	return
}

// restartIncFresh: between paths the stack is rebuilt by backtrack(); start a new process
// and replay the retained prefix.
func (ex *Exec) restartIncFresh() bool {
	saved := ex.pcPos
	ex.pcPos = len(ex.pathCond)
	ok := ex.restartInc()
	ex.pcPos = saved
	return ok
}

// runPath executes the harness once along the current decision vector.
func (ex *Exec) runPath(fn *ssa.Function) (end string) {
	defer func() {
		if r := recover(); r != nil {
			switch p := r.(type) {
			case pathKill:
				end = "killed: " + p.reason
			case pathDone:
				end = "done"
			case unsupported:
				end = "unsupported: " + p.msg
			case unwindFail:
				end = "unwind: " + p.where
			case budgetExceeded:
				end = "budget: " + p.msg
			case mergeFail:
				end = "engine: merge failure outside merge: " + p.msg
			case targetPanic:
				msg := ex.panicMessage(p.v)
				// an uncaught panic of the program under analysis on a feasible path
				ex.assert("no-uncaught-panic", ex.tc.False(), "uncaught panic: "+msg)
				end = "panic: " + msg
			default:
				end = fmt.Sprintf("engine: %v", r)
				if verbose {
					panic(r)
				}
			}
		}
	}()
	if p := fn.Pkg; p != nil {
		ex.runInit(p)
	}
	ex.callFunction(nil, fn, nil, nil, token.NoPos)
	return "ok"
}

func (ex *Exec) panicMessage(v value) string {
	if itf, ok := v.(iface); ok {
		if itf.t == nil {
			return "nil"
		}
		if t, ok := itf.v.(*Term); ok && t.IsConst() && t.sort.K == SStr {
			return t.s
		}
		if p, ok := itf.v.(*value); ok && p != nil {
			if s, ok := (*p).(structure); ok && len(s) > 0 {
				if t, ok := s[0].(*Term); ok && t.IsConst() && t.sort.K == SStr {
					return t.s
				}
			}
		}
		return itf.t.String()
	}
	return fmt.Sprintf("%T", v)
}

// assert checks pathCond ∧ ¬c.
func (ex *Exec) assert(label string, c *Term, pos string) {
	if ex.pcPos < len(ex.pathCond) || ex.tracePos < len(ex.trace) || ex.noSolver {
		// re-execution of a prefix explored before: this assertion has been decided already
		if !c.IsConst() && ex.pcPos < len(ex.pathCond) && ex.pathCond[ex.pcPos] == c {
			ex.addCond(c)
		}
		return
	}
	if ex.journalOn {
		panic(mergeFail{"assertion inside merged function"})
	}
	ob := &Obligation{Label: label, Path: ex.pathNo, Pos: pos}
	ex.obligations = append(ex.obligations, ob)
	if c.IsConst() && c.BoolVal() {
		ob.Verdict = "trivial"
		return
	}
	if v, ok := ex.known[c.id]; ok && v {
		ob.Verdict = "trivial"
		return
	}
	if v, ok := ex.rangeDecide(c); ok && v {
		ob.Verdict = "discharged"
		ob.Backend = "interval-analysis"
		ex.addCond(c)
		return
	}
	neg := ex.tc.Not(c)
	// known-finding predicate: split the obligation
	if kp, ok := ex.ghost["known:"+label]; ok && ex.job.Known[label] {
		pred := kp.(*Term)
		ob.Known = label
		// (a) inside the predicate: is the finding still there?
		if !ex.knownSeen[label] {
			r := ex.decide(ex.tc.And(neg, pred), nil)
			if r.Verdict == "sat" {
				ex.knownSeen[label] = true
			}
		}
		neg = ex.tc.And(neg, ex.tc.Not(pred))
	}
	t0 := time.Now()
	// quick attempt on the incremental solver
	r := "unknown"
	if ex.job.SkipInc {
	} else if !neg.IsConst() {
		r = ex.inc.CheckWith(neg)
	} else if neg.BoolVal() {
		r = ex.inc.Check()
	} else {
		r = "unsat"
	}
	if r == "unsat" && !ex.job.WaitAll {
		ob.Verdict = "discharged"
		ob.Backend = ex.inc.name + "(inc)"
		ob.Elapsed = time.Since(t0).Seconds()
		if !c.IsConst() {
			ex.addCond(c)
		}
		return
	}
	sr := ex.decide(neg, ex.inputs)
	ob.Elapsed = time.Since(t0).Seconds()
	ob.Backend = sr.Backend
	ob.Per = sr.Per
	ob.ErrLines = sr.ErrLines
	switch sr.Verdict {
	case "unsat":
		if r == "sat" {
			ob.Verdict = "unknown"
			ob.ErrLines = append(ob.ErrLines, "incremental solver said sat, portfolio said unsat")
		} else {
			ob.Verdict = "discharged"
		}
	case "sat":
		ob.Verdict = "violated"
		ob.Model = sr.Model
	default:
		ob.Verdict = "unknown"
		if sr.Verdict == "disagree" {
			ob.ErrLines = append(ob.ErrLines, "back ends disagree")
		}
	}
	if verbose {
		fmt.Printf("    assert %q: %s via %s in %.2fs %v\n", label, ob.Verdict, ob.Backend, ob.Elapsed, ob.Per)
	}
	// continue the path under the assertion (as CBMC does): later assertions are
	// checked for paths where this one held
	if c.IsConst() && !c.BoolVal() {
		return
	}
	ex.addCond(c)
}

func (ex *Exec) decide(extra *Term, vars []*Term) SolveResult {
	asserts := append([]*Term{}, ex.pathCond[:ex.pcPos]...)
	asserts = append(asserts, extra)
	// only variables that occur
	occ := map[string]bool{}
	for _, v := range collectVars(asserts) {
		occ[v.s] = true
	}
	var vs []*Term
	for _, v := range vars {
		if occ[v.s] {
			vs = append(vs, v)
		}
	}
	return SolvePortfolio(asserts, vs, ex.job.Solvers, ex.job.TimeoutS, ex.job.WaitAll)
}

// ---------- function-level merging ----------

type subChoice struct {
	n      int
	conds  []*Term
	taken  int
	forced bool
}

type mergeEntry struct {
	paths     [][]subChoice
	unmerge   bool // could not be merged: call normally
}

func (ex *Exec) traceKey() string {
	var sb strings.Builder
	for _, ch := range ex.trace[:ex.tracePos] {
		sb.WriteByte(byte('a' + ch.taken))
	}
	return fmt.Sprintf("%s#%d", sb.String(), ex.mergeSeq)
}

type mergedPath struct {
	cond   *Term
	writes []jentry // cell + value after the path
	result value
}

func (ex *Exec) callMerged(caller *frame, fn *ssa.Function, args []value, env []value, pos token.Pos) value {
	ex.mergeSeq++
	key := ex.traceKey()
	ent := ex.mergeCache[key]
	if ent != nil && ent.unmerge {
		return ex.callPlain(caller, fn, args, env, pos)
	}
	// save outer exploration state
	oTrace, oTracePos := ex.trace, ex.tracePos
	oPC, oPCPos := ex.pathCond, ex.pcPos
	oLevel := ex.inc.depth
	replay := ent != nil
	if !replay && ex.tracePos < len(ex.trace) {
		panic("engine: merged call in replay mode without cache entry")
	}
	ex.pathCond = append([]*Term{}, oPC[:oPCPos]...)
	base := len(ex.pathCond)
	ex.pcPos = base
	ex.journalOn = true
	savedNoSolver := ex.noSolver
	savedKnown, savedBounds := ex.known, ex.bounds
	var paths []mergedPath
	var rec [][]subChoice
	fail := ""
	restore := func() {
		ex.journalOn = false
		ex.noSolver = savedNoSolver
		ex.trace, ex.tracePos = oTrace, oTracePos
		ex.pathCond, ex.pcPos = oPC, oPCPos
		ex.known, ex.bounds = savedKnown, savedBounds
		if !replay {
			ex.inc.PopTo(oLevel)
		}
	}
	cloneFacts := func() {
		ex.known = make(map[int]bool, len(savedKnown))
		for k, v := range savedKnown {
			ex.known[k] = v
		}
		ex.bounds = make(map[int]ival, len(savedBounds))
		for k, v := range savedBounds {
			ex.bounds[k] = v
		}
	}
	runOne := func() (ok bool) {
		ex.journal = nil
		cloneFacts()
		defer func() {
			// undo writes, newest first
			if r := recover(); r != nil {
				for i := len(ex.journal) - 1; i >= 0; i-- {
					*ex.journal[i].p = ex.journal[i].old
				}
				switch p := r.(type) {
				case pathKill:
					ok = true // infeasible sub-path contributes nothing
					return
				case targetPanic:
					fail = "callee panics on a feasible path"
					ok = false
					return
				case mergeFail:
					fail = p.msg
					ok = false
					return
				}
				restore()
				panic(r)
			}
		}()
		res := ex.callPlain(caller, fn, args, env, pos)
		// collect final values of written cells (first journal entry per cell has the original)
		seen := map[*value]bool{}
		var ws []jentry
		for _, j := range ex.journal {
			if !seen[j.p] {
				seen[j.p] = true
				ws = append(ws, jentry{j.p, copyVal(*j.p)})
			}
		}
		cond := ex.tc.And(ex.pathCond[base:ex.pcPos]...)
		paths = append(paths, mergedPath{cond, ws, res})
		for i := len(ex.journal) - 1; i >= 0; i-- {
			*ex.journal[i].p = ex.journal[i].old
		}
		return true
	}
	if replay {
		ex.noSolver = true
		for _, sp := range ent.paths {
			ex.trace = make([]*choice, len(sp))
			for i, sc := range sp {
				ex.trace[i] = &choice{n: sc.n, conds: sc.conds, taken: sc.taken, forced: sc.forced}
			}
			ex.tracePos = 0
			ex.pathCond = ex.pathCond[:base]
			ex.pcPos = base
			if !runOne() {
				break
			}
		}
	} else {
		ex.trace = nil
		ex.tracePos = 0
		for {
			ex.tracePos = 0
			ex.pcPos = base
			// pathCond beyond base is managed by backtrack()
			if !runOne() {
				break
			}
			sp := make([]subChoice, len(ex.trace))
			for i, ch := range ex.trace {
				sp[i] = subChoice{ch.n, ch.conds, ch.taken, ch.forced}
			}
			rec = append(rec, sp)
			if len(rec) > 256 {
				fail = "more than 256 callee paths"
				break
			}
			if !ex.backtrackLocal(base, oLevel) {
				break
			}
		}
	}
	restore()
	if fail != "" {
		if verbose {
			fmt.Printf("    merge of %s abandoned: %s\n", fn, fail)
		}
		ex.mergeCache[key] = &mergeEntry{unmerge: true}
		return ex.callPlain(caller, fn, args, env, pos)
	}
	if !replay {
		ex.mergeCache[key] = &mergeEntry{paths: rec}
	}
	if len(paths) == 0 {
		panic(pathKill{"merged callee has no feasible path"})
	}
	// group the callee paths by the shape of what they produced (pointer identities,
	// dynamic types): paths of one group are merged with ite, groups are forked.
	var groups [][]mergedPath
	var sigs []string
	for _, p := range paths {
		sg := ex.pathSignature(p)
		found := false
		for gi, s2 := range sigs {
			if s2 == sg {
				groups[gi] = append(groups[gi], p)
				found = true
				break
			}
		}
		if !found {
			sigs = append(sigs, sg)
			groups = append(groups, []mergedPath{p})
		}
	}
	gi := 0
	if len(groups) > 1 {
		conds := make([]*Term, len(groups))
		for i, g := range groups {
			var cs []*Term
			for _, p := range g {
				cs = append(cs, p.cond)
			}
			conds[i] = ex.tc.Or(cs...)
		}
		gi = ex.choose(conds)
	}
	merged, err := ex.mergePaths(groups[gi])
	if err != "" {
		panic(unsupported{"merge of " + fn.String() + " failed: " + err})
	}
	for _, w := range merged.writes {
		*w.p = w.old // 'old' field carries the new merged value here
	}
	return merged.result
}

// pathSignature describes the non-scalar shape of a callee path's effects.
func (ex *Exec) pathSignature(p mergedPath) string {
	var sb strings.Builder
	var walk func(v value)
	walk = func(v value) {
		switch x := v.(type) {
		case *Term:
			sb.WriteByte('T')
		case timeV:
			sb.WriteByte('t')
		case structure:
			sb.WriteByte('{')
			for _, e := range x {
				walk(e)
			}
			sb.WriteByte('}')
		case array:
			sb.WriteByte('[')
			for _, e := range x {
				walk(e)
			}
			sb.WriteByte(']')
		case tuple:
			sb.WriteByte('(')
			for _, e := range x {
				walk(e)
			}
			sb.WriteByte(')')
		case iface:
			if x.t == nil {
				sb.WriteString("I0")
			} else {
				sb.WriteString("I<" + x.t.String() + ">")
				walk(x.v)
			}
		case *value:
			fmt.Fprintf(&sb, "P%p", x)
		case []value:
			if len(x) == 0 {
				fmt.Fprintf(&sb, "S0:%v", x == nil)
			} else {
				fmt.Fprintf(&sb, "S%p:%d", &x[0], len(x))
			}
		case nil:
			sb.WriteByte('N')
		default:
			fmt.Fprintf(&sb, "O%p", x)
		}
	}
	walk(p.result)
	sb.WriteByte('|')
	for _, w := range p.writes {
		fmt.Fprintf(&sb, "W%p=", w.p)
		walk(w.old)
	}
	return sb.String()
}

func (ex *Exec) mergePaths(paths []mergedPath) (out mergedPath, err string) {
	defer func() {
		if r := recover(); r != nil {
			if mf, ok := r.(mergeFail); ok {
				err = mf.msg
				return
			}
			panic(r)
		}
	}()
	// cells in first-seen order
	var cells []*value
	seen := map[*value]bool{}
	for _, p := range paths {
		for _, w := range p.writes {
			if !seen[w.p] {
				seen[w.p] = true
				cells = append(cells, w.p)
			}
		}
	}
	for _, c := range cells {
		var acc value
		for i := len(paths) - 1; i >= 0; i-- {
			v := copyVal(*c) // unchanged on this path
			for _, w := range paths[i].writes {
				if w.p == c {
					v = w.old
				}
			}
			if acc == nil && i == len(paths)-1 {
				acc = v
			} else {
				acc = ex.iteVal(paths[i].cond, v, acc)
			}
		}
		out.writes = append(out.writes, jentry{c, acc})
	}
	var res value
	for i := len(paths) - 1; i >= 0; i-- {
		if i == len(paths)-1 {
			res = paths[i].result
		} else {
			res = ex.iteVal(paths[i].cond, paths[i].result, res)
		}
	}
	out.result = res
	return
}

// callPlain calls fn bypassing the merge list.
func (ex *Exec) callPlain(caller *frame, fn *ssa.Function, args []value, env []value, pos token.Pos) value {
	return ex.callFunctionBody(caller, fn, args, env, pos)
}

// backtrackLocal: like backtrack but never crosses below the merged call's base.
func (ex *Exec) backtrackLocal(base int, level int) bool {
	for i := len(ex.trace) - 1; i >= 0; i-- {
		ch := ex.trace[i]
		if ch.forced {
			continue
		}
		next := -1
		for j := ch.taken + 1; j < ch.n; j++ {
			if ch.feas[j] == 1 {
				next = j
				break
			}
		}
		if next < 0 {
			continue
		}
		ex.trace = ex.trace[:i+1]
		ex.pathCond = ex.pathCond[:ch.pcIndex]
		ex.inc.PopTo(ch.level)
		ch.taken = next
		ex.inc.Push()
		ex.pathCond = append(ex.pathCond, ch.conds[next])
		ex.inc.Assert(ch.conds[next])
		return true
	}
	return false
}
