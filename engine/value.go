package main

import (
	"fmt"
	"go/types"
	"strings"

	"golang.org/x/tools/go/ssa"
)

// A value is one of:
//   *Term                       scalar (bool, integers, float64, string)
//   *value                      pointer to a cell
//   structure, array            aggregates (by value)
//   []value                     slice (shares backing with Go semantics)
//   *mapV                       map
//   iface                       interface value
//   *ssa.Function, *closure, *ssa.Builtin   function values
//   tuple                       multiple results
//   timeV                       time.Time (modelled sort)
//   *chanV                      channel (never operated on)
//   *symPtr                     pointer to a symbolically indexed element
//   nil                         nil func / absent optional operand
type value interface{}

type structure []value
type array []value
type tuple []value

type iface struct {
	t types.Type // dynamic type; nil for nil interface
	v value
}

type closure struct {
	fn  *ssa.Function
	env []value
}

type chanV struct{ id int }

type mapV struct {
	keys []value
	vals []value
	kt   types.Type
	id   int
}

// time.Time, decomposed on the executor's grid G (ns): absolute ns since year 1 = q*G + rem.
type timeV struct {
	q   *Term // BV80
	rem *Term // BV64, 0 <= rem < G
}

// pointer to slice/array element selected by a symbolic index
type symPtr struct {
	cells []*value
	idx   *Term // BV64, known (assumed) within range
}

// iterator for range over map / string
type iterV struct {
	m    *mapV
	keys []value
	vals []value
	pos  int
	str  *Term
	isS  bool
}

func isNamed(t types.Type, pkg, name string) bool {
	n, ok := t.(*types.Named)
	if !ok {
		if a, ok2 := t.(*types.Alias); ok2 {
			return isNamed(types.Unalias(a), pkg, name)
		}
		return false
	}
	o := n.Obj()
	return o.Pkg() != nil && o.Pkg().Path() == pkg && o.Name() == name
}

func isTimeType(t types.Type) bool { return isNamed(t, "time", "Time") }

func basicWidth(b *types.Basic) int {
	switch b.Kind() {
	case types.Int8, types.Uint8:
		return 8
	case types.Int16, types.Uint16:
		return 16
	case types.Int32, types.Uint32:
		return 32
	case types.Int, types.Int64, types.Uint, types.Uint64, types.Uintptr, types.UntypedInt, types.UntypedRune:
		return 64
	}
	return 0
}

func isUnsigned(t types.Type) bool {
	b, ok := t.Underlying().(*types.Basic)
	return ok && b.Info()&types.IsUnsigned != 0
}

func (ex *Exec) zero(t types.Type) value {
	if isTimeType(t) {
		return timeV{ex.tc.BVConst(timeW, 0), ex.tc.BVConst(64, 0)}
	}
	switch u := t.Underlying().(type) {
	case *types.Basic:
		switch {
		case u.Kind() == types.UntypedNil:
			return nil
		case u.Info()&types.IsBoolean != 0:
			return ex.tc.False()
		case u.Info()&types.IsInteger != 0:
			return ex.tc.BVConst(basicWidth(u), 0)
		case u.Kind() == types.Float64 || u.Kind() == types.UntypedFloat:
			return ex.tc.FPConst(0)
		case u.Kind() == types.Float32:
			return ex.tc.FPConst(0)
		case u.Info()&types.IsString != 0:
			return ex.tc.StrConst("")
		case u.Kind() == types.UnsafePointer:
			return (*value)(nil)
		}
		panic(unsupported{"zero of basic " + u.String()})
	case *types.Pointer:
		return (*value)(nil)
	case *types.Slice:
		return []value(nil)
	case *types.Map:
		return (*mapV)(nil)
	case *types.Chan:
		return (*chanV)(nil)
	case *types.Signature:
		return nil
	case *types.Interface:
		return iface{}
	case *types.Struct:
		s := make(structure, u.NumFields())
		for i := range s {
			s[i] = ex.zero(u.Field(i).Type())
		}
		return s
	case *types.Array:
		a := make(array, u.Len())
		for i := range a {
			a[i] = ex.zero(u.Elem())
		}
		return a
	case *types.Tuple:
		tp := make(tuple, u.Len())
		for i := range tp {
			tp[i] = ex.zero(u.At(i).Type())
		}
		return tp
	}
	panic(unsupported{"zero of " + t.String()})
}

func copyVal(v value) value {
	switch v := v.(type) {
	case structure:
		n := make(structure, len(v))
		for i := range v {
			n[i] = copyVal(v[i])
		}
		return n
	case array:
		n := make(array, len(v))
		for i := range v {
			n[i] = copyVal(v[i])
		}
		return n
	}
	return v
}

func (ex *Exec) load(t types.Type, addr value) value {
	switch p := addr.(type) {
	case *value:
		if p == nil {
			ex.runtimePanic("invalid memory address or nil pointer dereference")
		}
		ex.noteAccess(p, false)
		return copyVal(*p)
	case *symPtr:
		// ite chain over cells
		var res value
		for i := len(p.cells) - 1; i >= 0; i-- {
			cv := copyVal(*p.cells[i])
			if res == nil {
				res = cv
			} else {
				res = ex.iteVal(ex.tc.Eq(p.idx, ex.tc.BVConst(64, uint64(i))), cv, res)
			}
		}
		return res
	}
	panic(unsupported{fmt.Sprintf("load through %T", addr)})
}

func (ex *Exec) store(t types.Type, addr value, v value) {
	switch p := addr.(type) {
	case *value:
		if p == nil {
			ex.runtimePanic("invalid memory address or nil pointer dereference")
		}
		ex.storeCell(p, v)
	case *symPtr:
		for i, c := range p.cells {
			old := copyVal(*c)
			nv := ex.iteVal(ex.tc.Eq(p.idx, ex.tc.BVConst(64, uint64(i))), v, old)
			ex.storeCell(c, nv)
		}
	default:
		panic(unsupported{fmt.Sprintf("store through %T", addr)})
	}
}

// storeCell writes v into *p in place (so that pointers to sub-cells stay valid) and
// journals the old contents of every leaf cell.
func (ex *Exec) storeCell(p *value, v value) {
	switch nv := v.(type) {
	case structure:
		if old, ok := (*p).(structure); ok && len(old) == len(nv) {
			for i := range old {
				ex.storeCell(&old[i], nv[i])
			}
			return
		}
		v = copyVal(nv)
	case array:
		if old, ok := (*p).(array); ok && len(old) == len(nv) {
			for i := range old {
				ex.storeCell(&old[i], nv[i])
			}
			return
		}
		v = copyVal(nv)
	}
	ex.noteAccess(p, true)
	if ex.journalOn {
		ex.journal = append(ex.journal, jentry{p, *p})
	}
	*p = v
}

// iteVal builds "if c then a else b" for arbitrary values of identical shape.
func (ex *Exec) iteVal(c *Term, a, b value) value {
	if c.IsConst() {
		if c.BoolVal() {
			return a
		}
		return b
	}
	switch x := a.(type) {
	case *Term:
		y, ok := b.(*Term)
		if !ok {
			panic(mergeFail{"term vs non-term"})
		}
		return ex.tc.Ite(c, x, y)
	case structure:
		y, ok := b.(structure)
		if !ok || len(x) != len(y) {
			panic(mergeFail{"structure shape"})
		}
		n := make(structure, len(x))
		for i := range x {
			n[i] = ex.iteVal(c, x[i], y[i])
		}
		return n
	case array:
		y, ok := b.(array)
		if !ok || len(x) != len(y) {
			panic(mergeFail{"array shape"})
		}
		n := make(array, len(x))
		for i := range x {
			n[i] = ex.iteVal(c, x[i], y[i])
		}
		return n
	case tuple:
		y, ok := b.(tuple)
		if !ok || len(x) != len(y) {
			panic(mergeFail{"tuple shape"})
		}
		n := make(tuple, len(x))
		for i := range x {
			n[i] = ex.iteVal(c, x[i], y[i])
		}
		return n
	case timeV:
		y, ok := b.(timeV)
		if !ok {
			panic(mergeFail{"time vs non-time"})
		}
		return timeV{ex.tc.Ite(c, x.q, y.q), ex.tc.Ite(c, x.rem, y.rem)}
	case iface:
		y, ok := b.(iface)
		if ok && x.t == nil && y.t == nil {
			return x
		}
		if ok && x.t != nil && y.t != nil && types.Identical(x.t, y.t) {
			return iface{x.t, ex.iteVal(c, x.v, y.v)}
		}
		panic(mergeFail{"interfaces of different dynamic type"})
	case *value:
		if y, ok := b.(*value); ok && x == y {
			return x
		}
		panic(mergeFail{"distinct pointers"})
	case []value:
		y, ok := b.([]value)
		if ok && len(x) == len(y) && (len(x) == 0 || &x[0] == &y[0]) {
			return x
		}
		panic(mergeFail{"distinct slices"})
	case nil:
		if b == nil {
			return nil
		}
	case *mapV:
		if y, ok := b.(*mapV); ok && x == y {
			return x
		}
	case *closure:
		if y, ok := b.(*closure); ok && x == y {
			return x
		}
	case *ssa.Function:
		if y, ok := b.(*ssa.Function); ok && x == y {
			return x
		}
	}
	panic(mergeFail{fmt.Sprintf("cannot merge %T with %T", a, b)})
}

type mergeFail struct{ msg string }

// sameVal reports whether two values are syntactically identical (no solver).
func sameVal(a, b value) bool {
	switch x := a.(type) {
	case *Term:
		y, ok := b.(*Term)
		return ok && x == y
	case structure:
		y, ok := b.(structure)
		if !ok || len(x) != len(y) {
			return false
		}
		for i := range x {
			if !sameVal(x[i], y[i]) {
				return false
			}
		}
		return true
	case array:
		y, ok := b.(array)
		if !ok || len(x) != len(y) {
			return false
		}
		for i := range x {
			if !sameVal(x[i], y[i]) {
				return false
			}
		}
		return true
	case tuple:
		y, ok := b.(tuple)
		if !ok || len(x) != len(y) {
			return false
		}
		for i := range x {
			if !sameVal(x[i], y[i]) {
				return false
			}
		}
		return true
	case timeV:
		y, ok := b.(timeV)
		return ok && x.q == y.q && x.rem == y.rem
	case iface:
		y, ok := b.(iface)
		if !ok {
			return false
		}
		if x.t == nil || y.t == nil {
			return x.t == nil && y.t == nil
		}
		return types.Identical(x.t, y.t) && sameVal(x.v, y.v)
	case *value:
		y, ok := b.(*value)
		return ok && x == y
	case []value:
		y, ok := b.([]value)
		if !ok || len(x) != len(y) {
			return false
		}
		if len(x) == 0 {
			return (x == nil) == (y == nil)
		}
		return &x[0] == &y[0]
	case *mapV:
		y, ok := b.(*mapV)
		return ok && x == y
	case *closure:
		y, ok := b.(*closure)
		return ok && x == y
	case *ssa.Function:
		y, ok := b.(*ssa.Function)
		return ok && x == y
	case nil:
		return b == nil
	case *chanV:
		y, ok := b.(*chanV)
		return ok && x == y
	}
	return false
}

func (ex *Exec) showVal(v value) string {
	switch x := v.(type) {
	case *Term:
		if x.IsConst() {
			return x.constLit()
		}
		return fmt.Sprintf("<sym %s#%d>", x.op, x.id)
	case structure:
		var p []string
		for _, e := range x {
			p = append(p, ex.showVal(e))
		}
		return "{" + strings.Join(p, ",") + "}"
	case array:
		return fmt.Sprintf("[%d]array", len(x))
	case []value:
		return fmt.Sprintf("slice(len=%d)", len(x))
	case iface:
		if x.t == nil {
			return "nil-iface"
		}
		return "iface(" + x.t.String() + ")"
	case *value:
		if x == nil {
			return "nil-ptr"
		}
		return "ptr"
	case timeV:
		return "time(" + ex.showVal(x.q) + "," + ex.showVal(x.rem) + ")"
	case nil:
		return "nil"
	}
	return fmt.Sprintf("%T", v)
}
