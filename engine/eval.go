package main

// Concrete evaluation of terms under a model (used as a counterexample cache: if a
// cached model of the path condition satisfies a branch condition, the branch is
// feasible and the solver need not be asked).

import (
	"math"
	"math/big"
	"strings"
)

type cmodel struct {
	vals map[string]MVal
	memo map[int]*Term // evaluated constant per term id (nil = cannot evaluate)
	bad  map[int]bool
}

func newCModel(vals map[string]MVal) *cmodel {
	return &cmodel{vals: vals, memo: map[int]*Term{}, bad: map[int]bool{}}
}

// eval returns a constant term or nil.
func (m *cmodel) eval(c *TermCtx, t *Term) *Term {
	if t.IsConst() {
		return t
	}
	if r, ok := m.memo[t.id]; ok {
		return r
	}
	if m.bad[t.id] {
		return nil
	}
	r := m.eval1(c, t)
	if r == nil {
		m.bad[t.id] = true
	} else {
		m.memo[t.id] = r
	}
	return r
}

func (m *cmodel) eval1(c *TermCtx, t *Term) *Term {
	if t.op == "var" {
		v, ok := m.vals[t.s]
		if !ok {
			// unconstrained variable: any value will do, pick zero
			switch t.sort.K {
			case SBool:
				return c.False()
			case SBV:
				return c.BVConst(t.sort.W, 0)
			case SFP:
				return c.FPConst(0)
			case SStr:
				return c.StrConst("")
			case SInt:
				return c.IntConst(0)
			}
			return nil
		}
		switch t.sort.K {
		case SBool:
			return c.Bool(v.U != 0)
		case SBV:
			if v.Big != nil {
				return c.BVBig(t.sort.W, v.Big)
			}
			return c.BVConst(t.sort.W, v.U)
		case SFP:
			return c.FPConst(v.F)
		case SStr:
			return c.StrConst(v.S)
		case SInt:
			return c.IntConst(v.I)
		}
		return nil
	}
	if t.op == "uf" {
		return nil
	}
	// short-circuit operators
	switch t.op {
	case "ite":
		cd := m.eval(c, t.args[0])
		if cd == nil {
			return nil
		}
		if cd.BoolVal() {
			return m.eval(c, t.args[1])
		}
		return m.eval(c, t.args[2])
	case "and":
		for _, a := range t.args {
			v := m.eval(c, a)
			if v == nil {
				return nil
			}
			if !v.BoolVal() {
				return c.False()
			}
		}
		return c.True()
	case "or":
		for _, a := range t.args {
			v := m.eval(c, a)
			if v == nil {
				return nil
			}
			if v.BoolVal() {
				return c.True()
			}
		}
		return c.False()
	}
	args := make([]*Term, len(t.args))
	for i, a := range t.args {
		v := m.eval(c, a)
		if v == nil {
			return nil
		}
		args[i] = v
	}
	var r *Term
	switch t.op {
	case "not":
		r = c.Not(args[0])
	case "=":
		r = c.Eq(args[0], args[1])
	case "fp.eq":
		r = c.Eq(args[0], args[1])
	case "bvadd", "bvsub", "bvmul", "bvudiv", "bvurem", "bvsdiv", "bvsrem", "bvand", "bvor", "bvxor", "bvshl", "bvlshr", "bvashr":
		// SMT-LIB total semantics for division by zero
		if (t.op == "bvudiv" || t.op == "bvurem" || t.op == "bvsdiv" || t.op == "bvsrem") && args[1].isZero() {
			w := args[0].sort.W
			switch t.op {
			case "bvudiv":
				return c.BVBig(w, big.NewInt(-1))
			case "bvurem", "bvsrem":
				return args[0]
			case "bvsdiv":
				if args[0].SBig().Sign() < 0 {
					return c.BVConst(w, 1)
				}
				return c.BVBig(w, big.NewInt(-1))
			}
		}
		r = c.bvbin(t.op, args[0], args[1])
	case "bvneg":
		r = c.Neg(args[0])
	case "bvnot":
		r = c.BVNot(args[0])
	case "bvult", "bvule", "bvugt", "bvuge", "bvslt", "bvsle", "bvsgt", "bvsge":
		r = c.bvcmp(t.op, args[0], args[1])
	case "sign_extend":
		r = c.SignExt(args[0], t.sort.W)
	case "zero_extend":
		r = c.ZeroExt(args[0], t.sort.W)
	case "extract":
		r = c.Extract(args[0], t.p1, t.p2)
	case "fp.add", "fp.sub", "fp.mul", "fp.div":
		r = c.fpbin(t.op, args[0], args[1])
	case "fp.lt", "fp.leq", "fp.gt", "fp.geq":
		r = c.FPCmp(t.op, args[0], args[1])
	case "fp.neg":
		r = c.FPNeg(args[0])
	case "fp.abs":
		r = c.FPAbs(args[0])
	case "fp.isNaN":
		r = c.FPIsNaN(args[0])
	case "to_fp_s":
		r = c.SBVToFP(args[0])
	case "to_fp_u":
		r = c.UBVToFP(args[0])
	case "fp.to_sbv":
		if math.IsNaN(args[0].f) || math.Abs(args[0].f) >= 9e18 {
			return nil
		}
		r = c.FPToSBV(args[0], t.p1)
	case "str.isbytes":
		r = c.True()
	case "str.++":
		r = c.StrConcat(args[0], args[1])
	case "str.len":
		r = c.StrLen(args[0])
	case "str.substr":
		r = c.StrSubstr(args[0], args[1], args[2])
	case "str.indexof":
		r = c.StrIndexOf(args[0], args[1], args[2])
	case "str.contains":
		r = c.StrContains(args[0], args[1])
	case "str.prefixof":
		r = c.Bool(strings.HasPrefix(args[1].s, args[0].s))
	case "str.suffixof":
		r = c.Bool(strings.HasSuffix(args[1].s, args[0].s))
	case "str.<":
		r = c.StrLt(args[0], args[1])
	case "str.at":
		i := args[1].i
		if i < 0 || i >= int64(len(args[0].s)) {
			r = c.StrConst("")
		} else {
			r = c.StrConst(args[0].s[i : i+1])
		}
	case "str.to_code":
		if len(args[0].s) == 1 {
			r = c.IntConst(int64(args[0].s[0]))
		} else {
			r = c.IntConst(-1)
		}
	case "+", "-", "*":
		r = c.IntBin(t.op, args[0], args[1])
	case "<", "<=", ">", ">=":
		r = c.IntCmp(t.op, args[0], args[1])
	case "int2bv":
		r = c.BVBig(t.p1, big.NewInt(args[0].i))
	case "bv2int":
		r = c.IntConst(args[0].SBig().Int64())
	}
	if r == nil || !r.IsConst() {
		return nil
	}
	return r
}
