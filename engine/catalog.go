package main

import "fmt"

func p(kv ...interface{}) map[string]int64 {
	m := map[string]int64{}
	for i := 0; i+1 < len(kv); i += 2 {
		m[kv[i].(string)] = int64(kv[i+1].(int))
	}
	return m
}

const stallBd = "one step from an arbitrary tripped or recovering breaker (deadline and next-check instant symbolic on either side of now, durations symbolic in [1,2^40] ns): an arriving request is held up at any one scheduling point (mutex acquire/release, the log sink, the backend) while the clock moves on, optionally another request is served, and an earlier request completes with a symbolic condition outcome; then it resumes: shielding, legal transitions only, a completed trip stands, effects once per transition"

func jobsFor(prop, tier string) []*Job {
	thorough := tier == "thorough"
	var js []*Job
	add := func(j *Job) {
		j.Prop = prop
		js = append(js, j)
	}
	switch prop {
	case "C01":
		nmax, wmax := 3, 4
		if thorough {
			nmax, wmax = 4, 5
		}
		for n := 2; n <= nmax; n++ {
			add(&Job{Name: fmt.Sprintf("O1-step/n=%d", n), Pkg: "roundrobin", Harness: "VerifC01Step", Params: p("n", n), Inductive: true, TimeoutS: 120, Unwind: 2*n + 3,
				Bounds: fmt.Sprintf("one nextServer from an arbitrary iterator state: n=%d, weights symbolic in [0,2^31) not all zero, index in [-1,n), 0<=currentWeight<=max, step g symbolic >= 1 (stub of weightGcd); loop needs at most 2n+1 iterations (unwinding bound)", n)})
		}
		gm := 32
		if thorough {
			gm = 96
		}
		for n := 2; n <= nmax; n++ {
			gm := gm
			if n >= 4 {
				gm = 24 // path count grows with n: smaller weights for 4 servers
			}
			add(&Job{Name: fmt.Sprintf("O3-gcd/n=%d,M=%d", n, gm), Pkg: "roundrobin", Harness: "VerifC01Gcd", Params: p("n", n, "M", gm), Unwind: gm + 4, TimeoutS: 120, IncKind: "z3", Solvers: []string{"z3", "cvc5"},
				Bounds: fmt.Sprintf("real weightGcd/gcd on n=%d servers, weights symbolic in [0,%d] not all zero: result divides every weight and is a multiple of every common divisor in [2,%d]; loops unwound to termination (unwinding bound M+4 never reached)", n, gm, gm)})
		}
		add(&Job{Name: "O5-selections-race-free", Pkg: "roundrobin", Harness: "VerifC09Balancers", Grid: 1e9,
			Bounds: "lockset analysis of every pair of RoundRobin entry points (ServeHTTP, NextServer, UpsertServer, RemoveServer, ServerWeight, Servers) on one instance: every access to the iterator and the pool is made under the balancer's mutex in excluding mode — the premise under which O4's one-preemption sequentialisation covers all interleavings of two callers; 2 goroutines"})
		add(&Job{Name: "O4-concurrent-selections/n=2", Pkg: "roundrobin", Harness: "VerifC01Concurrent", Params: p("n", 2), Unwind: 40,
			Bounds: "two concurrent NextServer calls, the second running to completion at any one lock boundary of the first (two-thread sequentialisation); 2 servers, weights 0..3 not all zero, 0..3 warm-up selections (all symbolic): the pair chosen is the next two selections of the sequential sequence and the state afterwards is the same; native replay by barrier-released stress"})
		for n := 1; n <= nmax; n++ {
			parts := []int{-1}
			if n >= 3 {
				parts = nil
				for v := 0; v <= wmax; v++ {
					parts = append(parts, v)
				}
			}
			for _, part := range parts {
				add(&Job{Name: fmt.Sprintf("O2-window/n=%d,wmax=%d,w0=%d", n, wmax, part), Pkg: "roundrobin", Harness: "VerifC01Window",
					Params: p("n", n, "wmax", wmax, "part", part, "failed", 0), Unwind: 2*n*wmax + 8, IncKind: "cvc5",
					Bounds: fmt.Sprintf("n=%d servers, weights symbolic in [0,%d] not all zero (w0 fixed per job when >= 0), every window offset k0 in [0,W), window length W=sum/gcd", n, wmax)})
				if n >= 2 {
					add(&Job{Name: fmt.Sprintf("O2f-window-after-failed-upsert/n=%d,wmax=%d,w0=%d", n, wmax, part), Pkg: "roundrobin", Harness: "VerifC01Window",
						Params: p("n", n, "wmax", wmax, "part", part, "failed", 1), Unwind: 2*n*wmax + 8, IncKind: "cvc5",
						Bounds: fmt.Sprintf("as O2-window, but the last server's re-weighting is an invalid call (Weight(w), Weight(-1)) made after 0..3 selections (symbolic): it fails, and every window afterwards is proportional to the weights the balancer reports; n=%d, weights in [0,%d]", n, wmax)})
				}
			}
		}
	case "C03", "C13":
		tpts := []int{1, 333333333, 1000000000}
		if thorough {
			tpts = []int{1, 3, 1000, 333333333, 1000000000, 60000000000}

		}
		bd := "one step from an arbitrary invariant-satisfying bucket state: tpt=%s, 1<=burst<=2^20, 0<=avail<=burst, 0<=age<tpt, gap<=2^44 ns, 0<=tokens<=2^21; inductive, covers histories of any length"
		for _, t := range tpts {
			ts := fmt.Sprint(t, " ns/token")
			if t == 0 {
				ts = "symbolic in [1,2^36] ns/token"
			}
			b := fmt.Sprintf(bd, ts)
			if prop == "C03" {
				add(&Job{Name: fmt.Sprintf("O1-potential/tpt=%d", t), Pkg: "ratelimit", Harness: "VerifC03Potential", Params: p("tpt", t), SkipInc: true, TimeoutS: 120, IncMs: 500, Bounds: b, Inductive: true})
			} else {
				add(&Job{Name: fmt.Sprintf("O3-idle/tpt=%d", t), Pkg: "ratelimit", Harness: "VerifC13Idle", Params: p("tpt", t), SkipInc: true, TimeoutS: 120, IncMs: 500, Bounds: b, Inductive: true})
			}
		}
		shapesBd := "real limiter, rates {1/s burst 2} or {1/s burst 2, 3/min burst 3} chosen per request by the rate extractor (one job per pattern, all 4), 2 requests of one source with symbolic amounts 1..4 and gaps up to 4 s (symbolic seconds and nanosecond remainder), both map iteration orders inside TokenBucketSet.Consume (insertion order elsewhere; Update is order-checked by O4): oversize requests are errors without delay, others forwarded or 429 with delay, 1 s window bound across shape changes"
		if prop == "C03" {
			add(&Job{Name: "O6-concurrent-requests", Pkg: "ratelimit", Harness: "VerifC03Concurrent", Grid: 1e9, Params: p("t0span", 3), TimeoutS: 120,
				Bounds: "two concurrent requests (amount 1) of one source at one instant, the second running to completion at any one lock boundary of the first; rate 1/s, burst 1..2, 0..burst tokens already spent (symbolic): admitted = min(2, burst-spent); native replay by barrier-released stress"})
			add(&Job{Name: "O7-tracked-sources-within-capacity", Pkg: "internal/holsterv4/collections", Harness: "VerifC14Evict", Grid: 1e9, Params: p("capacity", 2, "t0span", 3), TimeoutS: 120,
				Bounds: "the capacity clause of the statement rests on the TTL map that remembers the sources (C14's obligation, registered here too): map of capacity 2 filled through its API with symbolic ttls (1..20 s) at symbolic instants; renewing the ttl of a tracked key touches only that key and forgets nobody (what the limiter does on every request of a tracked source), and only a new key beyond the capacity forgets one entry"})
			add(&Job{Name: "O4-update", Pkg: "ratelimit", Harness: "VerifC03Update", Params: p("tpt", 1), MapPermMax: 2, TimeoutS: 120, Inductive: true,
				Bounds: "TokenBucketSet.Update from any set over periods {1s,1min} (each bucket present or not, arbitrary invariant-satisfying state, rate 1..1000 per period, burst <= 2^20) to any non-empty rate set over the same periods (each rate unchanged or changed, symbolic)"})
			for sh := 0; sh < 4; sh++ {
				add(&Job{Name: fmt.Sprintf("O5-limiter-shapes/k=2,shapes=%d", sh), Pkg: "ratelimit", Harness: "VerifC03Shapes", Grid: 1e9, Params: p("k", 2, "maxgap", 3, "t0span", 3, "shapes", sh), MapPermMax: 2, MapPermFns: []string{"TokenBucketSet).Consume"}, TimeoutS: 120,
					Bounds: shapesBd})
			}
			k := 3
			for _, rt := range [][2]int{{1, 5}, {2, 3}} {
				add(&Job{Name: fmt.Sprintf("O3-windows/k=%d,rate=%d/s,burst=%d", k, rt[0], rt[1]), Pkg: "ratelimit", Harness: "VerifC03Windows", Grid: 1e9,
					Params: p("k", k, "average", rt[0], "burst", rt[1], "maxgap", 40, "t0span", 3), TimeoutS: 120,
					Bounds: fmt.Sprintf("%d requests of one source through the real TokenLimiter (TTL map + bucket set), rate %d/s burst %d, symbolic amounts in [1,burst], symbolic gaps up to 41 s with nanosecond remainder (beyond the 11 s entry lifetime); every sub-window (i,j]", k, rt[0], rt[1])})
			}
		}
		if prop == "C13" {
			add(&Job{Name: "O5-twin/k=2", Pkg: "ratelimit", Harness: "VerifC13Twin", Params: p("k", 2), TimeoutS: 120,
				Bounds: "two-rate set (2/s burst 3, 10/min burst 10) built through NewTokenBucketSet; 2 requests with symbolic amounts 1..4 and gaps up to 3 s, then a probe: a twin that never saw the rejected requests decides the probe identically"})
			for sh := 0; sh < 4; sh++ {
				add(&Job{Name: fmt.Sprintf("O6-limiter-oversize-and-shapes/k=2,shapes=%d", sh), Pkg: "ratelimit", Harness: "VerifC03Shapes", Grid: 1e9, Params: p("k", 2, "maxgap", 3, "t0span", 3, "shapes", sh), MapPermMax: 2, MapPermFns: []string{"TokenBucketSet).Consume"}, TimeoutS: 120,
					Bounds: shapesBd})
			}
			for per := 0; per < 2; per++ {
				add(&Job{Name: fmt.Sprintf("O7-rate-unit/period=%s", []string{"1s", "1min"}[per]), Pkg: "ratelimit", Harness: "VerifC13RateUnit", Params: p("period", per), TimeoutS: 120, MapPermMax: 1,
					Bounds: "API level (NewRateSet/NewTokenBucketSet, optionally reconfigured by Update from another average): period " + []string{"1 s", "1 min"}[per] + ", average from {1,2,3,7,10,1000}, burst symbolic in [1,2^10]; drained, then either idle for any D <= 2^50 ns with D*average >= burst*period and ask for the burst, or ask for 1..burst at once, get a delay (at most amount x period/average) and retry after it plus any extra wait <= 2^40 ns"})
			}
			add(&Job{Name: "O1O2O4-bucket/tpt=symbolic", Pkg: "ratelimit", Harness: "VerifC13Bucket", Params: p("tpt", 0), SkipInc: true, TimeoutS: 120, IncMs: 500, Inductive: true,
				Bounds: fmt.Sprintf(bd, "symbolic in [1,2^36] ns/token")})
			add(&Job{Name: "O1O4-set2", Pkg: "ratelimit", Harness: "VerifC13Set", Params: p("tpt", 0), SkipInc: true, TimeoutS: 120, IncMs: 500, MapPermMax: 2, Inductive: true,
				Bounds: "two buckets in arbitrary invariant-satisfying states (tpt symbolic in [1,2^36]), both map iteration orders, 0<=tokens<=2^21"})
		}
	case "C04":
		add(&Job{Name: "O1-step", Pkg: "connlimit", Harness: "VerifC04Step", Inductive: true,
			Bounds: "one acquire/release from an arbitrary consistent state: 3 sources, 0<=max<2^31, in-flight counts symbolic in [0,max]"})
		add(&Job{Name: "O3-atomic-admission", Pkg: "connlimit", Harness: "VerifC04Atomic",
			Bounds: "two concurrent acquire calls of one source holding max-1 slots, max in {1,2,3}: the second runs to completion at any one lock boundary of the first (two-thread sequentialisation); exactly one admitted, counts consistent; native replay by barrier-released stress (200000 rounds)"})
		depth, top := 3, 2
		if thorough {
			depth, top = 4, 2
		}
		add(&Job{Name: fmt.Sprintf("O2-serve/depth=%d,top=%d", depth, top), Pkg: "connlimit", Harness: "VerifC04Serve", Params: p("depth", depth, "top", top),
			Bounds: fmt.Sprintf("%d sequential request trees, overlap depth <= %d, 2 sources, max symbolic in [0,2^31), every handler returns or panics (symbolic)", top, depth)})
	case "C17":
		type cfg struct {
			N, k int
			res  int64
		}
		cfgs := []cfg{{2, 3, 2e9}, {3, 3, 1e9}, {3, 3, 2e9}, {4, 3, 2e9}, {3, 3, 7e9}}
		if thorough {
			cfgs = append(cfgs, cfg{4, 4, 2e9}, cfg{4, 4, 7e9}, cfg{3, 4, 1e9}, cfg{10, 3, 2e9}, cfg{10, 3, 1e9})
		}
		for _, c := range cfgs {
			add(&Job{Name: fmt.Sprintf("O1-window/N=%d,r=%gs,k=%d", c.N, float64(c.res)/1e9, c.k), Pkg: "memmetrics", Harness: "VerifC17Window",
				Params: p("N", c.N, "k", c.k, "t0span", 4*c.N*7), Grid: c.res, TimeoutS: 120, MergeBlind: true,
				Merge:  map[string]bool{"(*github.com/vulcand/oxy/v2/memmetrics.RollingCounter).cleanup": true, "(*github.com/vulcand/oxy/v2/memmetrics.RollingCounter).incBucketValue": true},
				Bounds: fmt.Sprintf("fresh counter with %d buckets of %gs; %d operations chosen symbolically among Inc(v<2^20)/Count/Reset, each preceded by a symbolic advance of up to %d resolutions plus a sub-resolution remainder; start instant symbolic in a window of %d resolutions from 2001-01-01 (covers every residue of the slot number modulo N and of its Unix second modulo N)", c.N, float64(c.res)/1e9, c.k, 3*c.N+2, 28*c.N)})
		}
		add(&Job{Name: "O3-ratio/N=3,r=1s,k=2", Pkg: "memmetrics", Harness: "VerifC17Ratio", Params: p("N", 3, "k", 2, "t0span", 84), Grid: 1e9, TimeoutS: 120, MergeBlind: true,
			Merge:  map[string]bool{"(*github.com/vulcand/oxy/v2/memmetrics.RollingCounter).cleanup": true, "(*github.com/vulcand/oxy/v2/memmetrics.RollingCounter).incBucketValue": true},
			Bounds: "ratio counter with 3 buckets of 1s, 2 symbolic increments to A or B with symbolic advances"})
	case "C05":
		type cfg struct{ k, depth, parts int }
		cfgs := []cfg{{2, 2, 4}, {3, 1, 8}, {4, 1, 16}}
		if thorough {
			cfgs = []cfg{{3, 2, 16}, {4, 1, 16}}
		}
		for _, c := range cfgs {
			for part := 0; part < c.parts; part++ {
				add(&Job{Name: fmt.Sprintf("O2-history/k=%d,depth=%d,part=%d", c.k, c.depth, part), Pkg: "cbreaker", Harness: "VerifC05History", Params: p("k", c.k, "depth", c.depth, "part", part, "parts", c.parts),
					Bounds: fmt.Sprintf("%d requests from a fresh breaker, each may overlap with nested requests (depth<=%d), symbolic clock gaps and latencies up to 2^41 ns, symbolic fallback/recovery/check durations in [1,2^40] ns, symbolic condition outcome per evaluation, symbolic response codes and ramp decisions", c.k, c.depth)})
			}
		}
		add(&Job{Name: "O3-stalled-arrival", Pkg: "cbreaker", Harness: "VerifC05Stall", TimeoutS: 60, Bounds: stallBd})
	case "C12":
		A := 3
		durs := []int{7, 1000000000, 10000000000, 3600000000000}
		if thorough {
			A = 7
		}
		for _, d := range durs {
			add(&Job{Name: fmt.Sprintf("O1-decision/A=%d,dur=%dns", A, d), Pkg: "cbreaker", Harness: "VerifC12Decision", Params: p("A", A, "dur", d), IncKind: "cvc5", SkipInc: true, TimeoutS: 120,
				Solvers: []string{"cvc5", "z3"},
				Bounds:  fmt.Sprintf("recovery duration %d ns, counters (allowed,denied) in [0,%d]^2, elapsed time symbolic in [0,duration]; IEEE-754 float64 semantics exact", d, A)})
		}
		for part := 0; part < 16; part++ {
			add(&Job{Name: fmt.Sprintf("O3-recovery-history/k=4,depth=1,part=%d", part), Pkg: "cbreaker", Harness: "VerifC05History", Params: p("k", 4, "depth", 1, "part", part, "parts", 16),
				Bounds: "history harness of C05 with 4 requests: every recovery starts its ramp afresh (start instant, duration, one decision so far), the first request after the recovery period finds standby, a matching condition during recovery trips again"})
		}
		B := 3
		if thorough {
			B = 6
		}
		add(&Job{Name: fmt.Sprintf("O2-fraction/B=%d,dur=10s", B), Pkg: "cbreaker", Harness: "VerifC12Fraction", Params: p("B", B, "dur", 10000000000), IncKind: "cvc5", SkipInc: true, TimeoutS: 300,
			Solvers: []string{"cvc5", "z3"}, Inductive: true,
			Bounds: fmt.Sprintf("recovery duration 10 s, counters symbolic in [0,2^%d), two symbolic instants el0<=el1<=duration; one decision step from any state satisfying the float-level invariant", B)})
	case "DBG":
		add(&Job{Name: "dbg", Pkg: "utils", Harness: "VerifDbgResolve", IncKind: "cvc5"})
	case "C19":
		lens := [][3]int{{1, 1, 1}, {3, 2, 2}, {2, 1, 3}}
		if thorough {
			lens = append(lens, [3]int{4, 3, 3}, [3]int{4, 5, 1})
		}
		for form := 0; form < 3; form++ {
			for _, l := range lens {
				add(&Job{Name: fmt.Sprintf("O1-clientip/form=%d,lens=%d.%d.%d", form, l[0], l[1], l[2]), Pkg: "utils", Harness: "VerifC19ClientIP",
					Params: p("form", form, "lip", l[0], "lport", l[1], "lzone", l[2]), IncKind: "cvc5", TimeoutS: 60, IncMs: 1500,
					Solvers: []string{"cvc5", "z3"},
					Bounds:  fmt.Sprintf("RemoteAddr = ip4:port / [ip6]:port / [ip6%%zone]:port with symbolic contents; lengths ip=%d port=%d zone=%d (any bytes except the separators of the form)", l[0], l[1], l[2])})
			}
		}
		add(&Job{Name: "O3-address-corpus", Pkg: "utils", Harness: "VerifC19Corpus", IncKind: "cvc5", TimeoutS: 60, Solvers: []string{"cvc5", "z3"},
			Bounds: "8 concrete peer addresses (IPv4, IPv6 loopback, link-local with two zones and without, full IPv6), all pairs: exact token, equal tokens iff equal addresses"})
		add(&Job{Name: "O2-host-header-dispatch", Pkg: "utils", Harness: "VerifC19Others", IncKind: "cvc5", TimeoutS: 60, Solvers: []string{"cvc5", "z3"},
			Bounds: "symbolic Host and header value (<= 8 bytes), symbolic variable name (<= 20 bytes)"})
	case "C16":
		add(&Job{Name: "O1-error-map", Pkg: "forward", Harness: "VerifC16ErrorMap",
			Bounds: "error kinds: net.Error (timeout flag symbolic), io.EOF, wrapped EOF, context.Canceled, doubly wrapped Canceled, other; through forward.New(passHost symbolic).ErrorHandler"})
		add(&Job{Name: "O2-listener-pairing", Pkg: "forward", Harness: "VerifC16Listener",
			Bounds: "StateListener.ServeHTTP with a next handler that returns, panics with http.ErrAbortHandler, or panics otherwise (symbolic)"})
	case "C02":
		k := 3
		if thorough {
			k = 4
		}
		for kind := 0; kind < 2; kind++ {
			for op0 := 0; op0 < 3; op0++ {
				add(&Job{Name: fmt.Sprintf("O2-history/kind=%d,pre=2,k=%d,op0=%d", kind, k-2, op0), Pkg: "roundrobin", Harness: "VerifC02History", Params: p("kind", kind, "k", k-2, "op0", op0, "pre", 2, "mode", 0),
					Bounds: fmt.Sprintf("as the plain history job but starting from two members with symbolic weights 0..2 (zeros produced by re-weighting), then %d administration calls", k-2)})
				add(&Job{Name: fmt.Sprintf("O2-history/kind=%d,k=%d,op0=%d", kind, k, op0), Pkg: "roundrobin", Harness: "VerifC02History", Params: p("kind", kind, "k", k, "op0", op0, "pre", 0, "mode", 0),
					Bounds: fmt.Sprintf("%d administration calls (upsert with weight 0..2 / upsert without option / remove) on a universe of 4 URLs with 3 identities, checked after every call; then one rotation via NextServer or ServeHTTP with a URL-rewriting downstream handler; kind 0 = RoundRobin, 1 = through Rebalancer", k)})
			}
		}
		k3 := 3 // the two fault modes keep the quick history length in both tiers
		for kind := 0; kind < 2; kind++ {
			add(&Job{Name: fmt.Sprintf("O3-failed-remove-mid-rotation/kind=%d,pre=2,k=%d", kind, k3-2), Pkg: "roundrobin", Harness: "VerifC02History", Params: p("kind", kind, "k", k3-2, "op0", 2, "pre", 2, "mode", 1),
				Bounds: fmt.Sprintf("two members with symbolic weights 0..2, a remove (op0) and %d further administration calls, then one rotation with a failing remove of an unknown server after the 1st or 2nd selection (symbolic): the rotation still reaches every positive-weight member", k3-3)})
		}
		for _, c := range [][2]int{{2, k - 2}, {0, k3}} {
			add(&Job{Name: fmt.Sprintf("O4-meter-failure/pre=%d,k=%d", c[0], c[1]), Pkg: "roundrobin", Harness: "VerifC02History", Params: p("kind", 1, "k", c[1], "op0", 0, "pre", c[0], "mode", 2),
				Bounds: fmt.Sprintf("through the rebalancer with a meter factory that fails at one symbolic step of %d administration calls (first call an upsert): a failed add reports an error and leaves the pool as it was", c[1])})
		}
		add(&Job{Name: "O5-administration-during-adjustment", Pkg: "roundrobin", Harness: "VerifC02AdminDuringAdjust", Grid: 1e9, TimeoutS: 60,
			Bounds: "rebalancer over three servers, meters ready, timer expired, one outlier (symbolic): a request whose completion adjusts the weights is preempted at one scheduling point (mutex acquire/release of either balancer, the log sink) by one administration call (remove / re-weight / add, symbolic victim) run to completion: balancer and rebalancer agree, a removed server is gone and not selected in the next 8 selections, an added one is present"})
	case "C10":
		add(&Job{Name: "O3-converge/a=2,wmax=4", Pkg: "roundrobin", Harness: "VerifC10Converge", Params: p("a", 2, "wmax", 4), TimeoutS: 120,
			Bounds: "two servers with configured weights 1..4 (symbolic), 2 adjustments with a symbolic outlier pattern, then 6 adjustments with equal ratings through the real adjustWeights (real gcd/normalisation): weights back in the configured proportions"})
		ns := []int{2, 3}
		for _, n := range ns {
			if n == 3 && !thorough {
				add(&Job{Name: fmt.Sprintf("O1b-normalize/n=%d", n), Pkg: "roundrobin", Harness: "VerifC10Normalize", Params: p("n", n), Inductive: true, TimeoutS: 120,
					Bounds: fmt.Sprintf("normalizeWeights with a symbolic common divisor g in [2,2^13] of n=%d weights m_i*g, m_i in [1,2^13]", n)})
				add(&Job{Name: fmt.Sprintf("O2-reset/n=%d", n), Pkg: "roundrobin", Harness: "VerifC10Reset", Params: p("n", n), TimeoutS: 120,
					Bounds: fmt.Sprintf("add / re-weight / remove through the rebalancer from an arbitrary J-state, n=%d", n)})
				continue
			}
			add(&Job{Name: fmt.Sprintf("O1a-adjust/n=%d,gcd-stubbed", n), Pkg: "roundrobin", Harness: "VerifC10Adjust", Params: p("n", n, "wmax", 1<<13, "stubgcd", 1), Inductive: true, TimeoutS: 120,
				Bounds: fmt.Sprintf("one adjustWeights from an arbitrary J-state: n=%d, configured weights symbolic in [0,2^13], current weights symbolic within the invariant, ratings from {0,0.02,0.5,1} and readiness symbolic, timer and back-off symbolic; weightsGcd stubbed to 1 (normalisation is O1b)", n)})
			if thorough {
				add(&Job{Name: fmt.Sprintf("O1c-adjust/n=%d,real-gcd,wmax=3", n), Pkg: "roundrobin", Harness: "VerifC10Adjust", Params: p("n", n, "wmax", 3, "stubgcd", 0), TimeoutS: 120, BranchTimeoutS: 3,
					Bounds: fmt.Sprintf("one adjustWeights with the real gcd/normalisation: n=%d, configured weights in [0,3], current weights <= 12, ratings from {0,0.02,0.5,1}", n)})
			}
			add(&Job{Name: fmt.Sprintf("O1b-normalize/n=%d", n), Pkg: "roundrobin", Harness: "VerifC10Normalize", Params: p("n", n), Inductive: true, TimeoutS: 120,
				Bounds: fmt.Sprintf("normalizeWeights with a symbolic common divisor g in [2,2^13] of n=%d weights m_i*g, m_i in [1,2^13]", n)})
			add(&Job{Name: fmt.Sprintf("O2-reset/n=%d", n), Pkg: "roundrobin", Harness: "VerifC10Reset", Params: p("n", n), TimeoutS: 120,
				Bounds: fmt.Sprintf("add / re-weight / remove through the rebalancer from an arbitrary J-state, n=%d", n)})
		}
	case "C14":
		k := 3
		caps := []int{2, 3}
		for _, c := range caps {
			add(&Job{Name: fmt.Sprintf("O3-evict/capacity=%d", c), Pkg: "internal/holsterv4/collections", Harness: "VerifC14Evict", Grid: 1e9, Params: p("capacity", c, "t0span", 3), TimeoutS: 120,
				Bounds: fmt.Sprintf("TTL map of capacity %d filled through the API with symbolic ttls (1..20 s) at symbolic instants, symbolic later instant, then Set of a new key (eviction) or of an existing key (update); representation invariant (heap order, index fields, key<->element bijection) asserted before and after", c)})
		}
		add(&Job{Name: "O2-connlimit-frame", Pkg: "connlimit", Harness: "VerifC04Step", Inductive: true,
			Bounds: "one acquire/release for a symbolic source from an arbitrary consistent state (3 sources): the decision depends only on that source's own count and the other sources' entries are untouched"})
		nsrc := 2
		// (VerifC14SelfComp, the end-to-end self-composition through the rate limiter, is kept in
		// the harness tree but not registered: 4 of its branch queries stay undecided at 120 s
		// in every back end — see DESIGN.md section 9)
		_ = nsrc
		lsRates := [][2]int{{1, 2}}
		if thorough {
			lsRates = append(lsRates, [2]int{2, 3})
		}
		for _, lr := range lsRates {
			for pat := 0; pat < 7; pat++ { // bit i = source of request i (0 = A); pattern 7 has no request of A
				name := fmt.Sprintf("O1-lockstep/k=%d,pattern=%d", k, pat)
				if lr[0] != 1 {
					name += fmt.Sprintf(",rate=%d/s,burst=%d", lr[0], lr[1])
				}
				add(&Job{Name: name, Pkg: "ratelimit", Harness: "VerifC14LockStep", Grid: 1e9,
					Params: p("k", k, "nsrc", 2, "capacity", 2, "average", lr[0], "burst", lr[1], "maxgap", 12, "t0span", 3, "srcpat", pat), TimeoutS: 120,
					Bounds: fmt.Sprintf("self-composition in lock step through the real TokenLimiter (capacity 2, rate %d/s burst %d): %d requests whose sources follow bit pattern %d (bit i set = request i comes from B, else from A) with symbolic amounts 1..burst+1 and gaps up to 13 s (beyond the 11 s entry lifetime), against a second limiter that sees only A's requests at the same instants: same decisions, same status, same advertised delay", lr[0], lr[1], k, pat)})
			}
		}
	case "C06", "C07", "C15":
		Ls := []int{0, 2, 5}
		if thorough {
			Ls = []int{0, 1, 2, 3, 5, 8}
		}
		retries := 1
		wide := 0
		if thorough {
			wide = 1
		}
		bd := "one request through Buffer.ServeHTTP with real multibuf (bytes.Buffer/bytes.Reader/io from the standard library interpreted, spill files through the ghost file table): "
		if prop == "C06" || prop == "C15" {
			for _, L := range Ls {
				for part := 0; part < 4; part++ {
					add(&Job{Name: fmt.Sprintf("request-side/L=%d,retries=%d,part=%d", L, retries, part), Pkg: "buffer", Harness: "VerifBufferServe", Params: p("mode", 0, "L", L, "retries", retries, "part", part, "wide", 0), IncKind: "cvc5", TimeoutS: 60,
						Bounds: bd + fmt.Sprintf("request body of %d bytes delivered in chunks of 1..3, declared or chunked framing, POST/HEAD; request max/mem thresholds symbolic among unlimited and the values below/equal/above the size; handler reads all or a 2-byte prefix, mutates URL/headers/method; up to %d retries decided symbolically; fixed small response", L, retries)})
				}
			}
		}
		if prop == "C07" {
			add(&Job{Name: "O2a-retry-expression-semantics", Pkg: "buffer", Harness: "VerifC07Expr", TimeoutS: 60,
				Bounds: "operator table and function map captured from buffer.parseExpression; six comparisons over Attempts()/ResponseCode() with symbolic values and constant, RequestMethod ==/!=, IsNetworkError, and/or of atom pairs, one nested expression"})
			add(&Job{Name: "O2b-retry-loop", Pkg: "buffer", Harness: "VerifC07Loop", TimeoutS: 60, Unwind: 300,
				Bounds: "real retry loop with the real predicate `ResponseCode() != 200 && Attempts() < limit` built through the captured table, limit symbolic in 2..13 (beyond the cap of 11), per-attempt status none/200/502 for the first three attempts (symbolic), then repeated"})
		}
		if prop == "C07" || prop == "C15" {
			for part := 0; part < 4; part++ {
				add(&Job{Name: fmt.Sprintf("response-side/L=2,retries=%d,part=%d", retries, part), Pkg: "buffer", Harness: "VerifBufferServe", Params: p("mode", 1, "L", 2, "retries", retries, "part", part, "wide", wide), IncKind: "cvc5", TimeoutS: 60,
					Bounds: bd + fmt.Sprintf("handler answers no/200/502/204/404 status with 0..2 writes of 0/1/3 bytes per attempt; response max in {unlimited,1,3,4}, mem in {1,2,3,7} (symbolic); POST/HEAD, declared/chunked; up to %d retries decided symbolically", retries)})
			}
		}
	case "C18":
		add(&Job{Name: "O1-expression-semantics", Pkg: "cbreaker", Harness: "VerifC18Expr", IncKind: "cvc5", TimeoutS: 120, Solvers: []string{"cvc5", "z3"},
			Bounds: "operator table and function map captured from parseExpression; the six comparisons over NetworkErrorRatio / ResponseCodeRatio (float64, symbolic value and constant, IEEE semantics) and LatencyAtQuantileMS (int, symbolic), and/or of pairs of atoms and one nested expression"})
		k := 2
		if thorough {
			k = 3
		}
		add(&Job{Name: fmt.Sprintf("O2-metrics/k=%d", k), Pkg: "memmetrics", Harness: "VerifC18Metrics", Grid: 1e9, Params: p("k", k, "t0span", 40), TimeoutS: 120, MergeBlind: true,
			Merge:  map[string]bool{"(*github.com/vulcand/oxy/v2/memmetrics.RollingCounter).cleanup": true, "(*github.com/vulcand/oxy/v2/memmetrics.RollingCounter).incBucketValue": true},
			Bounds: fmt.Sprintf("%d Record calls with symbolic status codes in [100,599] at one instant (symbolic within a window covering every bucket residue), then the ratios and Reset", k)})
		hb, hk := 3, 5
		if thorough {
			hb, hk = 6, 9
		}
		add(&Job{Name: fmt.Sprintf("O6-trip-clears-latency-window/buckets=%d,k=%d", hb, hk), Pkg: "memmetrics", Harness: "VerifC18HistReset", Grid: 1e9, Params: p("k", hk, "buckets", hb, "t0span", 3), TimeoutS: 60,
			Bounds: fmt.Sprintf("rolling latency histogram with %d tables of 10 s (HDR tables replaced by ghost sample counts): %d records, a rotation period passing or not before each (symbolic), then Reset directly or through RTMetrics.Reset: merged window empty, a later sample is the only one", hb, hk)})
		add(&Job{Name: "O5-stalled-arrival", Pkg: "cbreaker", Harness: "VerifC05Stall", TimeoutS: 60, Bounds: stallBd})
		add(&Job{Name: "O4-overlapping-completions", Pkg: "cbreaker", Harness: "VerifC18Overlap", TimeoutS: 60,
			Bounds: "two concurrent requests from standby: the second runs to completion at any one lock boundary of the first (two-thread sequentialisation, one preemption, scheduling points = mutex acquire/release), symbolic clock movement, durations and condition outcomes: effects once per transition, one metrics reset per trip"})
		for part := 0; part < 16; part++ {
			add(&Job{Name: fmt.Sprintf("O3-decision-and-effects/k=4,depth=1,part=%d", part), Pkg: "cbreaker", Harness: "VerifC05History", Params: p("k", 4, "depth", 1, "part", part, "parts", 16),
				Bounds: "history harness of C05 with 4 sequential requests (trip, recovery, re-trip from recovery, second recovery): same clauses"})
		}
		for part := 0; part < 4; part++ {
			add(&Job{Name: fmt.Sprintf("O3-decision-and-effects/k=2,depth=2,part=%d", part), Pkg: "cbreaker", Harness: "VerifC05History", Params: p("k", 2, "depth", 2, "part", part, "parts", 4),
				Bounds: "history harness of C05: evaluated exactly when the check period is over, trips iff the evaluated condition is true, trip resets the metrics once, on-tripped / on-standby effects run once per transition"})
		}
	case "C09":
		bd := "lockset analysis on the real SSA: each pair of entry points is executed from the same instance with every read/write of a shared cell or map logged together with the mutexes held (and their mode); a conflicting pair of accesses without a common excluding lock is a data race of two goroutines; 2 goroutines"
		add(&Job{Name: "metrics", Pkg: "memmetrics", Harness: "VerifC09Metrics", Grid: 1e9, Bounds: bd})
		add(&Job{Name: "metrics-no-lost-update", Pkg: "memmetrics", Harness: "VerifC09NoLostUpdate", Grid: 1e9,
			Bounds: "two Record calls with symbolic codes, the second running to completion at any one lock boundary of the first (two-thread sequentialisation): totals, network errors and per-code counts all account for both"})
		add(&Job{Name: "roundrobin", Pkg: "roundrobin", Harness: "VerifC09Balancers", Grid: 1e9, Bounds: bd})
		add(&Job{Name: "rebalancer", Pkg: "roundrobin", Harness: "VerifC09Rebalancer", Grid: 1e9, Bounds: bd})
		add(&Job{Name: "connlimit", Pkg: "connlimit", Harness: "VerifC09ConnLimiter", Bounds: bd})
		add(&Job{Name: "ratelimit", Pkg: "ratelimit", Harness: "VerifC09TokenLimiter", Grid: 1e9, Bounds: bd})
		add(&Job{Name: "cbreaker", Pkg: "cbreaker", Harness: "VerifC09Breaker", Grid: 1e9, Bounds: bd})
		add(&Job{Name: "ttlmap", Pkg: "internal/holsterv4/collections", Harness: "VerifC09TTLMap", Grid: 1e9, Params: p("t0span", 3), Bounds: bd})
	case "C11":
		names := []string{"raw", "hash", "aes", "aes-ttl", "fallback(raw,hash)", "fallback(hash,aes-ttl)"}
		for kind := 0; kind < 6; kind++ {
			add(&Job{Name: "O1O2-codec/" + names[kind], Pkg: "roundrobin", Harness: "VerifC11Codec", Grid: 1e9, Params: p("kind", kind),
				Bounds: "cookie codec " + names[kind] + ": universe of 5 server URLs (userinfo, query containing '|', two differing in the port only, escaped path), every non-empty pool subset (symbolic), cookie age symbolic within the ttl; AES-GCM replaced by an authenticated stand-in, crypto/rand by a fixed reader"})
		}
		for kind := 0; kind < 6; kind += 1 {
			for rb := 0; rb < 2; rb++ {
				if !thorough && (kind == 2 || kind == 4) {
					continue
				}
				add(&Job{Name: fmt.Sprintf("O3-routing/%s,rebalancer=%d", names[kind], rb), Pkg: "roundrobin", Harness: "VerifC11Routing", Grid: 1e9, Params: p("kind", kind, "rebalancer", rb),
					Bounds: "three servers with symbolic weights 1..3, symbolic rotation state (0..3 warm-up selections), symbolic target server: request without cookie, request with the target's cookie, the same cookie after the target was removed, then a cookie nobody issued (5 forms); real http cookie parsing/formatting interpreted"})
			}
		}
		freshRounds := 3
		if thorough {
			freshRounds = 4
		}
		for _, kind := range []int{0, 3, 5} {
			for rb := 0; rb < 2; rb++ {
				add(&Job{Name: fmt.Sprintf("O4-cookies-over-time/%s,rebalancer=%d", names[kind], rb), Pkg: "roundrobin", Harness: "VerifC11Fresh", Grid: 1e9, Params: p("kind", kind, "rebalancer", rb, "rounds", freshRounds),
					Bounds: "three servers of weight 1; a first visit without cookie, then " + fmt.Sprint(freshRounds) + " rounds of idle time from {0,4,10,11,25 s} (symbolic; cookie lifetime of the expiring codecs 10 s) followed by a request presenting the cookie last received: a cookie within its lifetime goes to its server, every cookie handed out pins the client at once"})
			}
		}
	case "C08":
		for part := 0; part < 16; part++ {
			add(&Job{Name: fmt.Sprintf("O1O2-director-pipeline/mode=%d,part=%d,lower=%d", part/4%2, part%4, part/8), Pkg: "forward", Harness: "VerifC08Pipeline", Params: p("part", part%4, "mode", part/4%2, "lower", part/8), IncKind: "cvc5", TimeoutS: 60, Solvers: []string{"cvc5", "z3"},
				Bounds: "real Director closure of forward.New inside a transcription of ReverseProxy's documented outbound steps; symbolic: passHostHeader, TLS, Host with/without port, peer address form (IPv4, IPv6, IPv6+zone), which forwarding headers an upstream proxy supplied, prior X-Forwarded-For, the subset of 7 header names listed in Connection (canonical or lower-case spelling), request target from a corpus of 11 (escaped slash/space, multi-byte, ';', '+', '//', dot segments, empty query)"})
		}
	case "C20":
		bd := "contract T(m): a symbolic handler script (header set/add/del, no/200/404/503 status, 0..2 writes, flush between writes, hijack) run bare and through the middleware on a recording writer offering Flush and Hijack; same status, body, headers (plus documented additions), call sequence, flush/hijack availability, handler invoked exactly once; contract D(m): one complete documented response and no handler call when the middleware intervenes; by induction on depth T(m) for each m gives transparency of every stack"
		for _, pk := range []string{"utils", "stream", "connlimit", "ratelimit", "cbreaker", "roundrobin", "buffer"} {
			add(&Job{Name: "T-and-D/" + pk, Pkg: pk, Harness: "VerifC20T", Grid: 1e9, IncKind: "cvc5", TimeoutS: 60, Bounds: bd})
		}
	}
	return js
}
