package main

import "fmt"

func p(kv ...interface{}) map[string]int64 {
	m := map[string]int64{}
	for i := 0; i+1 < len(kv); i += 2 {
		m[kv[i].(string)] = int64(kv[i+1].(int))
	}
	return m
}

func jobsFor(prop, tier string) []*Job {
	thorough := tier == "thorough"
	var js []*Job
	add := func(j *Job) {
		j.Prop = prop
		js = append(js, j)
	}
	switch prop {
	case "C01":
		nmax, wmax := 3, 4
		if thorough {
			nmax, wmax = 4, 6
		}
		for n := 1; n <= nmax; n++ {
			add(&Job{Name: fmt.Sprintf("O2-window/n=%d,wmax=%d", n, wmax), Pkg: "roundrobin", Harness: "VerifC01Window",
				Params: p("n", n, "wmax", wmax), Unwind: 2*n*wmax + 8,
				Bounds: fmt.Sprintf("n=%d servers, weights symbolic in [0,%d] not all zero, every window offset k0 in [0,W), window length W=sum/gcd", n, wmax)})
		}
	}
	return js
}
