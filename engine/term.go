package main

// Term DAG with hash-consing, constant folding and SMT-LIB2 printing.

import (
	"fmt"
	"math"
	"math/big"
	"sort"
	"strconv"
	"strings"
)

type SortKind int

const (
	SBool SortKind = iota
	SBV
	SFP // float64 only
	SStr
	SInt // mathematical integers (string lengths / indices only)
)

type Sort struct {
	K SortKind
	W int // bit width for SBV
}

func (s Sort) String() string {
	switch s.K {
	case SBool:
		return "Bool"
	case SBV:
		return fmt.Sprintf("(_ BitVec %d)", s.W)
	case SFP:
		return "(_ FloatingPoint 11 53)"
	case SStr:
		return "String"
	case SInt:
		return "Int"
	}
	return "?"
}

var (
	BoolSort = Sort{SBool, 0}
	FPSort   = Sort{SFP, 0}
	StrSort  = Sort{SStr, 0}
	IntSort  = Sort{SInt, 0}
)

func BV(w int) Sort { return Sort{SBV, w} }

type Term struct {
	id   int
	op   string // "const", "var", or SMT operator
	sort Sort
	args []*Term
	// constants
	u uint64  // BV value (masked to width) / bool (0,1)
	f float64 // FP const
	s string  // Str const or var name
	i int64   // Int const
	bg *big.Int // BV const wider than 64 bits (non-negative, < 2^W)
	// extra parameter for indexed operators (extract hi/lo, extend amount)
	p1, p2 int
}

func (t *Term) IsConst() bool { return t.op == "const" }
func (t *Term) Sort() Sort    { return t.sort }

type TermCtx struct {
	tab   map[string]*Term
	next  int
	vars  map[string]*Term
	order []*Term // creation order
}

func NewTermCtx() *TermCtx {
	return &TermCtx{tab: map[string]*Term{}, vars: map[string]*Term{}}
}

func (c *TermCtx) intern(t *Term) *Term {
	var sb strings.Builder
	sb.WriteString(t.op)
	sb.WriteByte('|')
	sb.WriteString(strconv.Itoa(int(t.sort.K)))
	sb.WriteByte(':')
	sb.WriteString(strconv.Itoa(t.sort.W))
	sb.WriteByte('|')
	for _, a := range t.args {
		sb.WriteString(strconv.Itoa(a.id))
		sb.WriteByte(',')
	}
	if t.op == "const" {
		switch t.sort.K {
		case SBool, SBV:
			if t.bg != nil {
				sb.WriteString("B" + t.bg.Text(16))
			} else {
				sb.WriteString(strconv.FormatUint(t.u, 16))
			}
		case SFP:
			sb.WriteString(strconv.FormatUint(math.Float64bits(t.f), 16))
		case SStr:
			sb.WriteString(strconv.Quote(t.s))
		case SInt:
			sb.WriteString(strconv.FormatInt(t.i, 10))
		}
	} else if t.op == "var" {
		sb.WriteString(t.s)
	} else if t.op == "uf" {
		sb.WriteString(t.s)
	}
	sb.WriteByte('|')
	sb.WriteString(strconv.Itoa(t.p1))
	sb.WriteByte(',')
	sb.WriteString(strconv.Itoa(t.p2))
	k := sb.String()
	if o, ok := c.tab[k]; ok {
		return o
	}
	c.next++
	t.id = c.next
	c.tab[k] = t
	c.order = append(c.order, t)
	return t
}

func mask(w int) uint64 {
	if w >= 64 {
		return ^uint64(0)
	}
	return (uint64(1) << uint(w)) - 1
}

func signExt(u uint64, w int) int64 {
	if w >= 64 {
		return int64(u)
	}
	if u&(uint64(1)<<uint(w-1)) != 0 {
		return int64(u | ^mask(w))
	}
	return int64(u)
}

// ---------- constructors ----------

func (c *TermCtx) Bool(b bool) *Term {
	u := uint64(0)
	if b {
		u = 1
	}
	return c.intern(&Term{op: "const", sort: BoolSort, u: u})
}
func (c *TermCtx) True() *Term  { return c.Bool(true) }
func (c *TermCtx) False() *Term { return c.Bool(false) }

func (c *TermCtx) BVConst(w int, u uint64) *Term {
	if w > 64 {
		return c.BVBig(w, new(big.Int).SetUint64(u))
	}
	return c.intern(&Term{op: "const", sort: BV(w), u: u & mask(w)})
}

// BVBig builds a constant of any width from a (possibly negative) big integer, reduced mod 2^w.
func (c *TermCtx) BVBig(w int, v *big.Int) *Term {
	m := new(big.Int).Lsh(big.NewInt(1), uint(w))
	r := new(big.Int).Mod(v, m)
	if w <= 64 {
		return c.intern(&Term{op: "const", sort: BV(w), u: r.Uint64()})
	}
	return c.intern(&Term{op: "const", sort: BV(w), bg: r})
}

// unsigned and signed values of a BV constant
func (t *Term) UBig() *big.Int {
	if t.bg != nil {
		return new(big.Int).Set(t.bg)
	}
	return new(big.Int).SetUint64(t.u)
}
func (t *Term) SBig() *big.Int {
	v := t.UBig()
	w := t.sort.W
	if v.Bit(w-1) == 1 {
		v.Sub(v, new(big.Int).Lsh(big.NewInt(1), uint(w)))
	}
	return v
}
func (t *Term) isZero() bool {
	if t.bg != nil {
		return t.bg.Sign() == 0
	}
	return t.u == 0
}
func (t *Term) isOne() bool {
	if t.bg != nil {
		return t.bg.Cmp(big.NewInt(1)) == 0
	}
	return t.u == 1
}

func (c *TermCtx) bigFold(op string, a, b *Term) *Term {
	w := a.sort.W
	x, y := a.UBig(), b.UBig()
	sx, sy := a.SBig(), b.SBig()
	r := new(big.Int)
	switch op {
	case "bvadd":
		return c.BVBig(w, r.Add(x, y))
	case "bvsub":
		return c.BVBig(w, r.Sub(x, y))
	case "bvmul":
		return c.BVBig(w, r.Mul(x, y))
	case "bvudiv":
		if y.Sign() != 0 {
			return c.BVBig(w, r.Quo(x, y))
		}
	case "bvurem":
		if y.Sign() != 0 {
			return c.BVBig(w, r.Rem(x, y))
		}
	case "bvsdiv":
		if sy.Sign() != 0 {
			return c.BVBig(w, r.Quo(sx, sy))
		}
	case "bvsrem":
		if sy.Sign() != 0 {
			return c.BVBig(w, r.Rem(sx, sy))
		}
	case "bvand":
		return c.BVBig(w, r.And(x, y))
	case "bvor":
		return c.BVBig(w, r.Or(x, y))
	case "bvxor":
		return c.BVBig(w, r.Xor(x, y))
	}
	return nil
}
func (c *TermCtx) Int64(v int64) *Term { return c.BVConst(64, uint64(v)) }
func (c *TermCtx) FPConst(f float64) *Term {
	return c.intern(&Term{op: "const", sort: FPSort, f: f})
}
func (c *TermCtx) StrConst(s string) *Term {
	return c.intern(&Term{op: "const", sort: StrSort, s: s})
}
func (c *TermCtx) IntConst(i int64) *Term {
	return c.intern(&Term{op: "const", sort: IntSort, i: i})
}

func (c *TermCtx) Var(name string, s Sort) *Term {
	if v, ok := c.vars[name]; ok {
		if v.sort != s {
			panic(fmt.Sprintf("var %s redeclared with different sort %v vs %v", name, v.sort, s))
		}
		return v
	}
	v := c.intern(&Term{op: "var", sort: s, s: name})
	c.vars[name] = v
	return v
}

func (t *Term) BoolVal() bool { return t.u != 0 }

func (c *TermCtx) allVars() []*Term {
	out := make([]*Term, 0, len(c.vars))
	for _, v := range c.vars {
		out = append(out, v)
	}
	return out
}

func (c *TermCtx) mk(op string, s Sort, args ...*Term) *Term {
	return c.intern(&Term{op: op, sort: s, args: args})
}

func (c *TermCtx) Not(a *Term) *Term {
	if a.IsConst() {
		return c.Bool(!a.BoolVal())
	}
	if a.op == "not" {
		return a.args[0]
	}
	return c.mk("not", BoolSort, a)
}

func (c *TermCtx) And(as ...*Term) *Term {
	var out []*Term
	seen := map[int]bool{}
	for _, a := range as {
		if a.IsConst() {
			if !a.BoolVal() {
				return c.False()
			}
			continue
		}
		if a.op == "and" {
			for _, b := range a.args {
				if !seen[b.id] {
					seen[b.id] = true
					out = append(out, b)
				}
			}
			continue
		}
		if !seen[a.id] {
			seen[a.id] = true
			out = append(out, a)
		}
	}
	for _, a := range out {
		if a.op == "not" && seen[a.args[0].id] {
			return c.False()
		}
	}
	if len(out) == 0 {
		return c.True()
	}
	if len(out) == 1 {
		return out[0]
	}
	return c.mk("and", BoolSort, out...)
}

func (c *TermCtx) Or(as ...*Term) *Term {
	var out []*Term
	seen := map[int]bool{}
	for _, a := range as {
		if a.IsConst() {
			if a.BoolVal() {
				return c.True()
			}
			continue
		}
		if a.op == "or" {
			for _, b := range a.args {
				if !seen[b.id] {
					seen[b.id] = true
					out = append(out, b)
				}
			}
			continue
		}
		if !seen[a.id] {
			seen[a.id] = true
			out = append(out, a)
		}
	}
	for _, a := range out {
		if a.op == "not" && seen[a.args[0].id] {
			return c.True()
		}
	}
	if len(out) == 0 {
		return c.False()
	}
	if len(out) == 1 {
		return out[0]
	}
	return c.mk("or", BoolSort, out...)
}

func (c *TermCtx) Implies(a, b *Term) *Term { return c.Or(c.Not(a), b) }

func (c *TermCtx) Ite(cond, a, b *Term) *Term {
	if cond.IsConst() {
		if cond.BoolVal() {
			return a
		}
		return b
	}
	if a == b {
		return a
	}
	if a.sort != b.sort {
		panic(fmt.Sprintf("ite sort mismatch %v %v", a.sort, b.sort))
	}
	if a.sort.K == SBool {
		if a.IsConst() && b.IsConst() {
			if a.BoolVal() {
				return cond
			}
			return c.Not(cond)
		}
		if a.IsConst() {
			if a.BoolVal() {
				return c.Or(cond, b)
			}
			return c.And(c.Not(cond), b)
		}
		if b.IsConst() {
			if b.BoolVal() {
				return c.Or(c.Not(cond), a)
			}
			return c.And(cond, a)
		}
	}
	return c.mk("ite", a.sort, cond, a, b)
}

func (c *TermCtx) Eq(a, b *Term) *Term {
	if a.sort != b.sort {
		panic(fmt.Sprintf("eq sort mismatch %v %v (%s, %s)", a.sort, b.sort, a.op, b.op))
	}
	if a == b && a.sort.K != SFP {
		return c.True()
	}
	if a.IsConst() && b.IsConst() {
		switch a.sort.K {
		case SBool, SBV:
			if a.bg != nil || b.bg != nil {
				return c.Bool(a.UBig().Cmp(b.UBig()) == 0)
			}
			return c.Bool(a.u == b.u)
		case SStr:
			return c.Bool(a.s == b.s)
		case SInt:
			return c.Bool(a.i == b.i)
		case SFP:
			return c.Bool(a.f == b.f)
		}
	}
	if a.sort.K == SFP {
		return c.mk("fp.eq", BoolSort, a, b)
	}
	if x, y, ok := c.bothIntView(a, b); ok {
		return c.Eq(x, y)
	}
	if a.sort.K == SBool {
		if a.IsConst() {
			if a.BoolVal() {
				return b
			}
			return c.Not(b)
		}
		if b.IsConst() {
			if b.BoolVal() {
				return a
			}
			return c.Not(a)
		}
	}
	if a.id > b.id {
		a, b = b, a
	}
	return c.mk("=", BoolSort, a, b)
}

// intView: a 64-bit term that is the image of a (small) mathematical integer — a string
// length or index — can be compared and added in Int, which keeps string-heavy formulas in
// strings+LIA instead of mixing in int2bv. Lengths and indices are far below 2^62.
func (c *TermCtx) intView(t *Term) (*Term, bool) {
	if t.sort.K != SBV || t.sort.W != 64 {
		return nil, false
	}
	if t.op == "int2bv" {
		return t.args[0], true
	}
	if t.IsConst() {
		v := signExt(t.u, 64)
		if v > -(1<<40) && v < 1<<40 {
			return c.IntConst(v), true
		}
	}
	return nil, false
}

func (c *TermCtx) bothIntView(a, b *Term) (*Term, *Term, bool) {
	if a.op != "int2bv" && b.op != "int2bv" {
		return nil, nil, false
	}
	x, ok1 := c.intView(a)
	y, ok2 := c.intView(b)
	if ok1 && ok2 {
		return x, y, true
	}
	return nil, nil, false
}

// ---------- bit-vector arithmetic ----------

func (c *TermCtx) bvbin(op string, a, b *Term) *Term {
	if a.sort != b.sort || a.sort.K != SBV {
		panic(fmt.Sprintf("%s sort mismatch %v %v", op, a.sort, b.sort))
	}
	w := a.sort.W
	if w > 64 && a.IsConst() && b.IsConst() {
		if r := c.bigFold(op, a, b); r != nil {
			return r
		}
	} else if a.IsConst() && b.IsConst() {
		x, y := a.u, b.u
		sx, sy := signExt(x, w), signExt(y, w)
		switch op {
		case "bvadd":
			return c.BVConst(w, x+y)
		case "bvsub":
			return c.BVConst(w, x-y)
		case "bvmul":
			return c.BVConst(w, x*y)
		case "bvudiv":
			if y != 0 {
				return c.BVConst(w, x/y)
			}
		case "bvurem":
			if y != 0 {
				return c.BVConst(w, x%y)
			}
		case "bvsdiv":
			if y != 0 {
				if sy == -1 {
					return c.BVConst(w, uint64(-sx))
				}
				return c.BVConst(w, uint64(sx/sy))
			}
		case "bvsrem":
			if y != 0 {
				if sy == -1 {
					return c.BVConst(w, 0)
				}
				return c.BVConst(w, uint64(sx%sy))
			}
		case "bvand":
			return c.BVConst(w, x&y)
		case "bvor":
			return c.BVConst(w, x|y)
		case "bvxor":
			return c.BVConst(w, x^y)
		case "bvshl":
			if y >= uint64(w) {
				return c.BVConst(w, 0)
			}
			return c.BVConst(w, x<<y)
		case "bvlshr":
			if y >= uint64(w) {
				return c.BVConst(w, 0)
			}
			return c.BVConst(w, x>>y)
		case "bvashr":
			if y >= uint64(w) {
				y = uint64(w - 1)
			}
			return c.BVConst(w, uint64(sx>>y))
		}
	}
	// light algebraic simplification
	switch op {
	case "bvadd":
		if a.IsConst() && a.isZero() {
			return b
		}
		if b.IsConst() && b.isZero() {
			return a
		}
	case "bvsub":
		if b.IsConst() && b.isZero() {
			return a
		}
		if a == b {
			return c.BVConst(w, 0)
		}
	case "bvmul":
		if a.IsConst() && a.isOne() {
			return b
		}
		if b.IsConst() && b.isOne() {
			return a
		}
		if (a.IsConst() && a.isZero()) || (b.IsConst() && b.isZero()) {
			return c.BVConst(w, 0)
		}
	case "bvsdiv", "bvudiv":
		if b.IsConst() && b.isOne() {
			return a
		}
	}
	return c.mk(op, a.sort, a, b)
}

func (c *TermCtx) Add(a, b *Term) *Term { return c.linear(a, b, false) }
func (c *TermCtx) Sub(a, b *Term) *Term { return c.linear(a, b, true) }

// linear normalises sums/differences: flattens nested bvadd/bvsub/bvneg, cancels equal
// terms, folds constants (all identities of modular arithmetic), and distributes over an
// ite operand when that makes a branch constant.
func (c *TermCtx) linear(a, b *Term, sub bool) *Term {
	if a.sort != b.sort || a.sort.K != SBV {
		panic(fmt.Sprintf("add/sub sort mismatch %v %v", a.sort, b.sort))
	}
	w := a.sort.W
	if a.IsConst() && b.IsConst() {
		if sub {
			return c.bvbin("bvsub", a, b)
		}
		return c.bvbin("bvadd", a, b)
	}
	if x, y, ok := c.bothIntView(a, b); ok {
		if sub {
			return c.IntToBV(c.IntBin("-", x, y), 64)
		}
		return c.IntToBV(c.IntBin("+", x, y), 64)
	}
	coef := map[int]int{}
	terms := map[int]*Term{}
	konst := new(big.Int)
	var walk func(t *Term, sign int, depth int)
	walk = func(t *Term, sign int, depth int) {
		if t.IsConst() {
			if sign > 0 {
				konst.Add(konst, t.UBig())
			} else {
				konst.Sub(konst, t.UBig())
			}
			return
		}
		if depth < 24 {
			switch t.op {
			case "bvadd":
				walk(t.args[0], sign, depth+1)
				walk(t.args[1], sign, depth+1)
				return
			case "bvsub":
				walk(t.args[0], sign, depth+1)
				walk(t.args[1], -sign, depth+1)
				return
			case "bvneg":
				walk(t.args[0], -sign, depth+1)
				return
			}
		}
		coef[t.id] += sign
		terms[t.id] = t
	}
	walk(a, 1, 0)
	if sub {
		walk(b, -1, 0)
	} else {
		walk(b, 1, 0)
	}
	ids := make([]int, 0, len(coef))
	for id, k := range coef {
		if k != 0 {
			ids = append(ids, id)
		}
	}
	sort.Ints(ids)
	// distribute over a single ite if it yields a constant branch
	if len(ids) == 2 {
		for k := 0; k < 2; k++ {
			x, y := terms[ids[k]], terms[ids[1-k]]
			if x.op == "ite" && coef[x.id] != 0 && (coef[x.id] == 1 || coef[x.id] == -1) && (coef[y.id] == 1 || coef[y.id] == -1) && coef[x.id] == -coef[y.id] {
				if x.args[1] == y || x.args[2] == y || (x.args[1].op == "ite") == false && (sameLinearBase(x.args[1], y) || sameLinearBase(x.args[2], y)) {
					kc := c.BVBig(w, konst)
					mk := func(br *Term) *Term {
						var r *Term
						if coef[x.id] == 1 {
							r = c.linear(br, y, true)
						} else {
							r = c.linear(y, br, true)
						}
						return c.linear(r, kc, false)
					}
					return c.Ite(x.args[0], mk(x.args[1]), mk(x.args[2]))
				}
			}
		}
	}
	var pos, neg *Term
	addTo := func(acc *Term, t *Term) *Term {
		if acc == nil {
			return t
		}
		return c.mk("bvadd", t.sort, acc, t)
	}
	for _, id := range ids {
		k := coef[id]
		t := terms[id]
		for k > 0 {
			pos = addTo(pos, t)
			k--
		}
		for k < 0 {
			neg = addTo(neg, t)
			k++
		}
	}
	kc := c.BVBig(w, konst)
	var res *Term
	switch {
	case pos == nil && neg == nil:
		return kc
	case pos == nil:
		if kc.isZero() {
			res = c.Neg(neg)
		} else {
			res = c.mk("bvsub", kc.sort, kc, neg)
		}
		return res
	default:
		res = pos
		if neg != nil {
			res = c.mk("bvsub", res.sort, res, neg)
		}
		if !kc.isZero() {
			// prefer x - K for small negative constants
			if kc.SBig().Sign() < 0 {
				res = c.mk("bvsub", res.sort, res, c.BVBig(w, new(big.Int).Neg(kc.SBig())))
			} else {
				res = c.mk("bvadd", res.sort, res, kc)
			}
		}
		return res
	}
}

// sameLinearBase: do x and y share a summand (so that x-y simplifies)?
func sameLinearBase(x, y *Term) bool {
	set := map[int]bool{}
	var walk func(t *Term, d int, f func(*Term))
	walk = func(t *Term, d int, f func(*Term)) {
		if d < 8 && (t.op == "bvadd" || t.op == "bvsub") {
			walk(t.args[0], d+1, f)
			walk(t.args[1], d+1, f)
			return
		}
		f(t)
	}
	walk(x, 0, func(t *Term) { set[t.id] = true })
	found := false
	walk(y, 0, func(t *Term) {
		if set[t.id] && !t.IsConst() {
			found = true
		}
	})
	return found
}
// Mul keeps products in "sum of monomials" form: a product with a symbolic factor is
// distributed over sums, differences and ite (identities of modular arithmetic), so that
// the solvers see each monomial as one atom and the rest is linear.
func (c *TermCtx) Mul(a, b *Term) *Term {
	if a.IsConst() || b.IsConst() {
		return c.bvbin("bvmul", a, b)
	}
	return c.mulDist(a, b, 0)
}

func (c *TermCtx) mulDist(a, b *Term, depth int) *Term {
	if a.IsConst() || b.IsConst() || depth > 6 {
		return c.mulAtom(a, b)
	}
	for k := 0; k < 2; k++ {
		x, y := a, b
		if k == 1 {
			x, y = b, a
		}
		switch x.op {
		case "bvadd":
			return c.Add(c.mulDist(x.args[0], y, depth+1), c.mulDist(x.args[1], y, depth+1))
		case "bvsub":
			return c.Sub(c.mulDist(x.args[0], y, depth+1), c.mulDist(x.args[1], y, depth+1))
		case "bvneg":
			return c.Neg(c.mulDist(x.args[0], y, depth+1))
		case "ite":
			if x.args[1].IsConst() || x.args[2].IsConst() {
				return c.Ite(x.args[0], c.mulDist(x.args[1], y, depth+1), c.mulDist(x.args[2], y, depth+1))
			}
		}
	}
	return c.mulAtom(a, b)
}

func (c *TermCtx) mulAtom(a, b *Term) *Term {
	if !a.IsConst() && !b.IsConst() && a.id > b.id {
		a, b = b, a
	}
	return c.bvbin("bvmul", a, b)
}
func (c *TermCtx) SDiv(a, b *Term) *Term { return c.bvbin("bvsdiv", a, b) }
func (c *TermCtx) SRem(a, b *Term) *Term { return c.bvbin("bvsrem", a, b) }
func (c *TermCtx) UDiv(a, b *Term) *Term { return c.bvbin("bvudiv", a, b) }
func (c *TermCtx) URem(a, b *Term) *Term { return c.bvbin("bvurem", a, b) }
func (c *TermCtx) BVBin(op string, a, b *Term) *Term {
	return c.bvbin(op, a, b)
}

func (c *TermCtx) Neg(a *Term) *Term {
	if a.IsConst() {
		return c.BVBig(a.sort.W, new(big.Int).Neg(a.UBig()))
	}
	return c.mk("bvneg", a.sort, a)
}
func (c *TermCtx) BVNot(a *Term) *Term {
	if a.IsConst() {
		return c.BVBig(a.sort.W, new(big.Int).Sub(new(big.Int).Neg(a.UBig()), big.NewInt(1)))
	}
	return c.mk("bvnot", a.sort, a)
}

func (c *TermCtx) bvcmp(op string, a, b *Term) *Term {
	if a.sort != b.sort || a.sort.K != SBV {
		panic(fmt.Sprintf("%s sort mismatch %v %v", op, a.sort, b.sort))
	}
	w := a.sort.W
	if w > 64 && a.IsConst() && b.IsConst() {
		uc, scmp := a.UBig().Cmp(b.UBig()), a.SBig().Cmp(b.SBig())
		switch op {
		case "bvult":
			return c.Bool(uc < 0)
		case "bvule":
			return c.Bool(uc <= 0)
		case "bvugt":
			return c.Bool(uc > 0)
		case "bvuge":
			return c.Bool(uc >= 0)
		case "bvslt":
			return c.Bool(scmp < 0)
		case "bvsle":
			return c.Bool(scmp <= 0)
		case "bvsgt":
			return c.Bool(scmp > 0)
		case "bvsge":
			return c.Bool(scmp >= 0)
		}
	} else if a.IsConst() && b.IsConst() {
		x, y := a.u, b.u
		sx, sy := signExt(x, w), signExt(y, w)
		switch op {
		case "bvult":
			return c.Bool(x < y)
		case "bvule":
			return c.Bool(x <= y)
		case "bvugt":
			return c.Bool(x > y)
		case "bvuge":
			return c.Bool(x >= y)
		case "bvslt":
			return c.Bool(sx < sy)
		case "bvsle":
			return c.Bool(sx <= sy)
		case "bvsgt":
			return c.Bool(sx > sy)
		case "bvsge":
			return c.Bool(sx >= sy)
		}
	}
	if a == b {
		switch op {
		case "bvult", "bvugt", "bvslt", "bvsgt":
			return c.False()
		default:
			return c.True()
		}
	}
	if x, y, ok := c.bothIntView(a, b); ok {
		switch op {
		case "bvslt":
			return c.IntCmp("<", x, y)
		case "bvsle":
			return c.IntCmp("<=", x, y)
		case "bvsgt":
			return c.IntCmp(">", x, y)
		case "bvsge":
			return c.IntCmp(">=", x, y)
		}
	}
	return c.mk(op, BoolSort, a, b)
}

func (c *TermCtx) SLt(a, b *Term) *Term { return c.bvcmp("bvslt", a, b) }
func (c *TermCtx) SLe(a, b *Term) *Term { return c.bvcmp("bvsle", a, b) }
func (c *TermCtx) SGt(a, b *Term) *Term { return c.bvcmp("bvsgt", a, b) }
func (c *TermCtx) SGe(a, b *Term) *Term { return c.bvcmp("bvsge", a, b) }
func (c *TermCtx) ULt(a, b *Term) *Term { return c.bvcmp("bvult", a, b) }
func (c *TermCtx) ULe(a, b *Term) *Term { return c.bvcmp("bvule", a, b) }
func (c *TermCtx) BVCmp(op string, a, b *Term) *Term {
	return c.bvcmp(op, a, b)
}

func (c *TermCtx) SignExt(a *Term, to int) *Term {
	w := a.sort.W
	if to == w {
		return a
	}
	if a.IsConst() {
		return c.BVBig(to, a.SBig())
	}
	return c.intern(&Term{op: "sign_extend", sort: BV(to), args: []*Term{a}, p1: to - w})
}
func (c *TermCtx) ZeroExt(a *Term, to int) *Term {
	w := a.sort.W
	if to == w {
		return a
	}
	if a.IsConst() {
		return c.BVBig(to, a.UBig())
	}
	return c.intern(&Term{op: "zero_extend", sort: BV(to), args: []*Term{a}, p1: to - w})
}
func (c *TermCtx) Extract(a *Term, hi, lo int) *Term {
	if lo == 0 && hi == a.sort.W-1 {
		return a
	}
	if a.IsConst() {
		return c.BVBig(hi-lo+1, new(big.Int).Rsh(a.UBig(), uint(lo)))
	}
	return c.intern(&Term{op: "extract", sort: BV(hi - lo + 1), args: []*Term{a}, p1: hi, p2: lo})
}

// ---------- floating point ----------

func (c *TermCtx) fpbin(op string, a, b *Term) *Term {
	if a.IsConst() && b.IsConst() {
		switch op {
		case "fp.add":
			return c.FPConst(a.f + b.f)
		case "fp.sub":
			return c.FPConst(a.f - b.f)
		case "fp.mul":
			return c.FPConst(a.f * b.f)
		case "fp.div":
			return c.FPConst(a.f / b.f)
		}
	}
	return c.mk(op, FPSort, a, b)
}
func (c *TermCtx) FPBin(op string, a, b *Term) *Term { return c.fpbin(op, a, b) }
func (c *TermCtx) FPCmp(op string, a, b *Term) *Term {
	if a.IsConst() && b.IsConst() {
		switch op {
		case "fp.lt":
			return c.Bool(a.f < b.f)
		case "fp.leq":
			return c.Bool(a.f <= b.f)
		case "fp.gt":
			return c.Bool(a.f > b.f)
		case "fp.geq":
			return c.Bool(a.f >= b.f)
		case "fp.eq":
			return c.Bool(a.f == b.f)
		}
	}
	return c.mk(op, BoolSort, a, b)
}
func (c *TermCtx) FPNeg(a *Term) *Term {
	if a.IsConst() {
		return c.FPConst(-a.f)
	}
	return c.mk("fp.neg", FPSort, a)
}
func (c *TermCtx) FPAbs(a *Term) *Term {
	if a.IsConst() {
		return c.FPConst(math.Abs(a.f))
	}
	return c.mk("fp.abs", FPSort, a)
}
func (c *TermCtx) FPIsNaN(a *Term) *Term {
	if a.IsConst() {
		return c.Bool(math.IsNaN(a.f))
	}
	return c.mk("fp.isNaN", BoolSort, a)
}

// signed BV -> float64
func (c *TermCtx) SBVToFP(a *Term) *Term {
	if a.IsConst() {
		return c.FPConst(float64(signExt(a.u, a.sort.W)))
	}
	return c.mk("to_fp_s", FPSort, a)
}
func (c *TermCtx) UBVToFP(a *Term) *Term {
	if a.IsConst() {
		return c.FPConst(float64(a.u))
	}
	return c.mk("to_fp_u", FPSort, a)
}

// float64 -> signed BV (RTZ)
func (c *TermCtx) FPToSBV(a *Term, w int) *Term {
	if a.IsConst() && !math.IsNaN(a.f) && math.Abs(a.f) < 9e18 {
		return c.BVConst(w, uint64(int64(a.f)))
	}
	return c.intern(&Term{op: "fp.to_sbv", sort: BV(w), args: []*Term{a}, p1: w})
}

// ---------- strings (lengths/indices live in Int) ----------

func (c *TermCtx) StrConcat(a, b *Term) *Term {
	if a.IsConst() && b.IsConst() {
		return c.StrConst(a.s + b.s)
	}
	if a.IsConst() && a.s == "" {
		return b
	}
	if b.IsConst() && b.s == "" {
		return a
	}
	return c.mk("str.++", StrSort, a, b)
}
func (c *TermCtx) StrLen(a *Term) *Term {
	if a.IsConst() {
		return c.IntConst(int64(len(a.s)))
	}
	return c.mk("str.len", IntSort, a)
}
func (c *TermCtx) StrSubstr(a, off, n *Term) *Term {
	if a.IsConst() && off.IsConst() && n.IsConst() {
		o, l := off.i, n.i
		if o < 0 || o >= int64(len(a.s)) || l <= 0 {
			return c.StrConst("")
		}
		if o+l > int64(len(a.s)) {
			l = int64(len(a.s)) - o
		}
		return c.StrConst(a.s[o : o+l])
	}
	return c.mk("str.substr", StrSort, a, off, n)
}
func (c *TermCtx) StrIndexOf(a, b, from *Term) *Term {
	if a.IsConst() && b.IsConst() && from.IsConst() {
		f := from.i
		if f < 0 || f > int64(len(a.s)) {
			return c.IntConst(-1)
		}
		i := strings.Index(a.s[f:], b.s)
		if i < 0 {
			return c.IntConst(-1)
		}
		return c.IntConst(int64(i) + f)
	}
	return c.mk("str.indexof", IntSort, a, b, from)
}
func (c *TermCtx) StrContains(a, b *Term) *Term {
	if a.IsConst() && b.IsConst() {
		return c.Bool(strings.Contains(a.s, b.s))
	}
	return c.mk("str.contains", BoolSort, a, b)
}
func (c *TermCtx) StrPrefixOf(p, a *Term) *Term {
	if a.IsConst() && p.IsConst() {
		return c.Bool(strings.HasPrefix(a.s, p.s))
	}
	return c.mk("str.prefixof", BoolSort, p, a)
}
func (c *TermCtx) StrSuffixOf(p, a *Term) *Term {
	if a.IsConst() && p.IsConst() {
		return c.Bool(strings.HasSuffix(a.s, p.s))
	}
	return c.mk("str.suffixof", BoolSort, p, a)
}
func (c *TermCtx) StrLt(a, b *Term) *Term {
	if a.IsConst() && b.IsConst() {
		return c.Bool(a.s < b.s)
	}
	return c.mk("str.<", BoolSort, a, b)
}

// code point of single-char string at index (Int) as Int
func (c *TermCtx) StrCodeAt(a, i *Term) *Term {
	if a.IsConst() && i.IsConst() && i.i >= 0 && i.i < int64(len(a.s)) {
		return c.IntConst(int64(a.s[i.i]))
	}
	return c.mk("str.to_code", IntSort, c.mk("str.at", StrSort, a, i))
}

func (c *TermCtx) IntBin(op string, a, b *Term) *Term {
	if b.IsConst() && b.i == 0 && (op == "+" || op == "-") {
		return a
	}
	if a.IsConst() && a.i == 0 && op == "+" {
		return b
	}
	if a.IsConst() && b.IsConst() {
		switch op {
		case "+":
			return c.IntConst(a.i + b.i)
		case "-":
			return c.IntConst(a.i - b.i)
		case "*":
			return c.IntConst(a.i * b.i)
		}
	}
	return c.mk(op, IntSort, a, b)
}
func (c *TermCtx) IntCmp(op string, a, b *Term) *Term {
	if a.IsConst() && b.IsConst() {
		switch op {
		case "<":
			return c.Bool(a.i < b.i)
		case "<=":
			return c.Bool(a.i <= b.i)
		case ">":
			return c.Bool(a.i > b.i)
		case ">=":
			return c.Bool(a.i >= b.i)
		}
	}
	return c.mk(op, BoolSort, a, b)
}

// Int <-> BV64 (values are assumed small and non-negative or -1)
func (c *TermCtx) IntToBV(a *Term, w int) *Term {
	if a.IsConst() {
		return c.BVConst(w, uint64(a.i))
	}
	if a.op == "bv2int" && a.args[0].sort.W == w {
		return a.args[0]
	}
	return c.intern(&Term{op: "int2bv", sort: BV(w), args: []*Term{a}, p1: w})
}

// signed interpretation of a BV as Int
func (c *TermCtx) BVToInt(a *Term) *Term {
	if a.IsConst() {
		return c.IntConst(signExt(a.u, a.sort.W))
	}
	if a.op == "int2bv" {
		// int2bv(x) back to int: assume in range (string lengths)
		return a.args[0]
	}
	return c.mk("bv2int", IntSort, a)
}

// StrIsBytes: every character of the SMT string is a byte (Go strings are byte sequences)
func (c *TermCtx) StrIsBytes(a *Term) *Term {
	if a.IsConst() {
		return c.True()
	}
	return c.mk("str.isbytes", BoolSort, a)
}

// uninterpreted function application
func (c *TermCtx) UF(name string, res Sort, args ...*Term) *Term {
	return c.intern(&Term{op: "uf", sort: res, args: args, s: name})
}

// ---------- printing ----------

func smtString(s string) string {
	var sb strings.Builder
	sb.WriteByte('"')
	for i := 0; i < len(s); i++ {
		ch := s[i]
		if ch == '"' {
			sb.WriteString("\"\"")
		} else if ch >= 32 && ch < 127 && ch != '\\' {
			sb.WriteByte(ch)
		} else {
			fmt.Fprintf(&sb, "\\u{%x}", ch)
		}
	}
	sb.WriteByte('"')
	return sb.String()
}

func fpLit(f float64) string {
	b := math.Float64bits(f)
	sign := b >> 63
	exp := (b >> 52) & 0x7ff
	man := b & ((1 << 52) - 1)
	return fmt.Sprintf("(fp #b%01b #b%011b #b%052b)", sign, exp, man)
}

func (t *Term) constLit() string {
	switch t.sort.K {
	case SBool:
		if t.u != 0 {
			return "true"
		}
		return "false"
	case SBV:
		if t.bg != nil {
			if t.sort.W%4 == 0 {
				return fmt.Sprintf("#x%0*s", t.sort.W/4, t.bg.Text(16))
			}
			return fmt.Sprintf("#b%0*s", t.sort.W, t.bg.Text(2))
		}
		if t.sort.W%4 == 0 {
			return fmt.Sprintf("#x%0*x", t.sort.W/4, t.u)
		}
		return fmt.Sprintf("#b%0*b", t.sort.W, t.u)
	case SFP:
		return fpLit(t.f)
	case SStr:
		return smtString(t.s)
	case SInt:
		if t.i < 0 {
			return fmt.Sprintf("(- %d)", -t.i)
		}
		return strconv.FormatInt(t.i, 10)
	}
	return "?"
}

// Script builder: prints a set of root terms as define-funs in topological order.
type Script struct {
	sb      strings.Builder
	emitted map[int]bool
	ufs     map[string]bool
}

func NewScript() *Script {
	return &Script{emitted: map[int]bool{}, ufs: map[string]bool{}}
}

func (t *Term) ref() string {
	if t.op == "const" {
		return t.constLit()
	}
	if t.op == "var" {
		return t.s
	}
	return "t" + strconv.Itoa(t.id)
}

func (s *Script) body(t *Term) string {
	var sb strings.Builder
	op := t.op
	switch op {
	case "sign_extend", "zero_extend":
		fmt.Fprintf(&sb, "((_ %s %d) %s)", op, t.p1, t.args[0].ref())
		return sb.String()
	case "extract":
		fmt.Fprintf(&sb, "((_ extract %d %d) %s)", t.p1, t.p2, t.args[0].ref())
		return sb.String()
	case "to_fp_s":
		return fmt.Sprintf("((_ to_fp 11 53) RNE %s)", t.args[0].ref())
	case "to_fp_u":
		return fmt.Sprintf("((_ to_fp_unsigned 11 53) RNE %s)", t.args[0].ref())
	case "fp.to_sbv":
		return fmt.Sprintf("((_ fp.to_sbv %d) RTZ %s)", t.p1, t.args[0].ref())
	case "int2bv":
		return fmt.Sprintf("((_ int2bv %d) %s)", t.p1, t.args[0].ref())
	case "bv2int":
		// signed interpretation
		w := t.args[0].sort.W
		a := t.args[0].ref()
		return fmt.Sprintf("(ite (bvslt %s (_ bv0 %d)) (- (bv2nat %s) %s) (bv2nat %s))", a, w, a, new(big.Int).Lsh(big.NewInt(1), uint(w)).String(), a)
	case "fp.add", "fp.sub", "fp.mul", "fp.div":
		return fmt.Sprintf("(%s RNE %s %s)", op, t.args[0].ref(), t.args[1].ref())
	case "str.isbytes":
		return fmt.Sprintf("(str.in_re %s (re.* (re.range \"\\u{0}\" \"\\u{ff}\")))", t.args[0].ref())
	case "uf":
		sb.WriteString("(" + t.s)
		for _, a := range t.args {
			sb.WriteString(" " + a.ref())
		}
		sb.WriteString(")")
		return sb.String()
	}
	sb.WriteString("(" + op)
	for _, a := range t.args {
		sb.WriteString(" " + a.ref())
	}
	sb.WriteString(")")
	return sb.String()
}

// Define emits declarations/definitions for t and everything below it.
func (s *Script) Define(t *Term) {
	if s.emitted[t.id] {
		return
	}
	// iterative post-order
	type fr struct {
		t *Term
		i int
	}
	st := []fr{{t, 0}}
	for len(st) > 0 {
		top := &st[len(st)-1]
		if s.emitted[top.t.id] {
			st = st[:len(st)-1]
			continue
		}
		if top.i < len(top.t.args) {
			a := top.t.args[top.i]
			top.i++
			if !s.emitted[a.id] {
				st = append(st, fr{a, 0})
			}
			continue
		}
		x := top.t
		st = st[:len(st)-1]
		s.emitted[x.id] = true
		switch x.op {
		case "const":
		case "var":
			fmt.Fprintf(&s.sb, "(declare-fun %s () %s)\n", x.s, x.sort)
		default:
			if x.op == "uf" && !s.ufs[x.s] {
				s.ufs[x.s] = true
				fmt.Fprintf(&s.sb, "(declare-fun %s (", x.s)
				for i, a := range x.args {
					if i > 0 {
						s.sb.WriteByte(' ')
					}
					s.sb.WriteString(a.sort.String())
				}
				fmt.Fprintf(&s.sb, ") %s)\n", x.sort)
			}
			fmt.Fprintf(&s.sb, "(define-fun t%d () %s %s)\n", x.id, x.sort, s.body(x))
		}
	}
}

func (s *Script) Assert(t *Term) {
	s.Define(t)
	fmt.Fprintf(&s.sb, "(assert %s)\n", t.ref())
}
func (s *Script) Raw(line string) { s.sb.WriteString(line); s.sb.WriteByte('\n') }
func (s *Script) String() string  { return s.sb.String() }

// Take returns the text accumulated since the last Take and clears it.
func (s *Script) Take() string {
	r := s.sb.String()
	s.sb.Reset()
	return r
}

// collect free variables under a term
func collectVars(ts []*Term) []*Term {
	seen := map[int]bool{}
	var out []*Term
	var st []*Term
	st = append(st, ts...)
	for len(st) > 0 {
		x := st[len(st)-1]
		st = st[:len(st)-1]
		if seen[x.id] {
			continue
		}
		seen[x.id] = true
		if x.op == "var" {
			out = append(out, x)
		}
		st = append(st, x.args...)
	}
	sort.Slice(out, func(i, j int) bool { return out[i].s < out[j].s })
	return out
}

func usesTheory(ts []*Term) (fp, str bool) {
	seen := map[int]bool{}
	var st []*Term
	st = append(st, ts...)
	for len(st) > 0 {
		x := st[len(st)-1]
		st = st[:len(st)-1]
		if seen[x.id] {
			continue
		}
		seen[x.id] = true
		if x.sort.K == SFP {
			fp = true
		}
		if x.sort.K == SStr || x.sort.K == SInt {
			str = true
		}
		st = append(st, x.args...)
	}
	return
}

func termSize(ts []*Term) int {
	seen := map[int]bool{}
	var st []*Term
	st = append(st, ts...)
	for len(st) > 0 {
		x := st[len(st)-1]
		st = st[:len(st)-1]
		if seen[x.id] {
			continue
		}
		seen[x.id] = true
		st = append(st, x.args...)
	}
	return len(seen)
}
