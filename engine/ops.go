package main

import (
	"fmt"
	"go/constant"
	"go/token"
	"go/types"
	"strings"

	"golang.org/x/tools/go/ssa"
)

func constantBool(c *ssa.Const) bool     { return constant.BoolVal(c.Value) }
func constantString(c *ssa.Const) string {
	if c.Value.Kind() == constant.String {
		return constant.StringVal(c.Value)
	}
	// string(rune) constant
	return string(rune(c.Int64()))
}

func (ex *Exec) unop(fr *frame, instr *ssa.UnOp, x value) value {
	switch instr.Op {
	case token.MUL: // load
		return ex.load(instr.Type(), x)
	case token.NOT:
		return ex.tc.Not(x.(*Term))
	case token.SUB:
		t := x.(*Term)
		if t.sort.K == SFP {
			return ex.tc.FPNeg(t)
		}
		return ex.tc.Neg(t)
	case token.XOR:
		return ex.tc.BVNot(x.(*Term))
	case token.ARROW:
		panic(unsupported{"channel receive in " + fr.fn.String()})
	}
	panic(unsupported{"unop " + instr.Op.String()})
}

func (ex *Exec) binop(op token.Token, t types.Type, x, y value) value {
	tc := ex.tc
	switch op {
	case token.EQL:
		return ex.equals(t, x, y)
	case token.NEQ:
		return tc.Not(ex.equals(t, x, y))
	}
	a, ok1 := x.(*Term)
	b, ok2 := y.(*Term)
	if !ok1 || !ok2 {
		panic(unsupported{fmt.Sprintf("binop %s on %T, %T", op, x, y)})
	}
	switch a.sort.K {
	case SFP:
		switch op {
		case token.ADD:
			return tc.FPBin("fp.add", a, b)
		case token.SUB:
			return tc.FPBin("fp.sub", a, b)
		case token.MUL:
			return tc.FPBin("fp.mul", a, b)
		case token.QUO:
			return tc.FPBin("fp.div", a, b)
		case token.LSS:
			return tc.FPCmp("fp.lt", a, b)
		case token.LEQ:
			return tc.FPCmp("fp.leq", a, b)
		case token.GTR:
			return tc.FPCmp("fp.gt", a, b)
		case token.GEQ:
			return tc.FPCmp("fp.geq", a, b)
		}
	case SStr:
		switch op {
		case token.ADD:
			return tc.StrConcat(a, b)
		case token.LSS:
			return tc.StrLt(a, b)
		case token.GTR:
			return tc.StrLt(b, a)
		case token.LEQ:
			return tc.Not(tc.StrLt(b, a))
		case token.GEQ:
			return tc.Not(tc.StrLt(a, b))
		}
	case SBool:
		switch op {
		case token.AND, token.LAND:
			return tc.And(a, b)
		case token.OR, token.LOR:
			return tc.Or(a, b)
		}
	case SBV:
		uns := isUnsigned(t)
		// shifts: y may have a different width
		if op == token.SHL || op == token.SHR {
			w := a.sort.W
			var sh *Term
			if b.sort.W < w {
				sh = tc.ZeroExt(b, w)
			} else if b.sort.W > w {
				// huge shift amounts saturate
				big := tc.BVCmp("bvuge", b, tc.BVConst(b.sort.W, uint64(w)))
				sh = tc.Ite(big, tc.BVConst(w, uint64(w)), tc.Extract(b, w-1, 0))
			} else {
				sh = b
			}
			if op == token.SHL {
				return tc.BVBin("bvshl", a, sh)
			}
			if uns {
				return tc.BVBin("bvlshr", a, sh)
			}
			return tc.BVBin("bvashr", a, sh)
		}
		if a.sort != b.sort {
			panic(unsupported{fmt.Sprintf("binop %s width mismatch %v %v", op, a.sort, b.sort)})
		}
		switch op {
		case token.ADD:
			return tc.Add(a, b)
		case token.SUB:
			return tc.Sub(a, b)
		case token.MUL:
			if !uns {
				if r := ex.narrowMul(a, b); r != nil {
					return r
				}
			}
			return tc.Mul(a, b)
		case token.QUO, token.REM:
			z := tc.Eq(b, tc.BVConst(b.sort.W, 0))
			if ex.branch(z) {
				ex.runtimePanic("integer divide by zero")
			}
			if !uns && op == token.QUO && b.IsConst() {
				if r := ex.divLinForm(a, signExt(b.u, 64)); r != nil {
					return r
				}
			}
			if !uns {
				if r := ex.narrowDivRem(op == token.REM, a, b); r != nil {
					return r
				}
			}
			if uns {
				if op == token.QUO {
					return tc.UDiv(a, b)
				}
				return tc.URem(a, b)
			}
			if op == token.QUO {
				return tc.SDiv(a, b)
			}
			return tc.SRem(a, b)
		case token.AND:
			return tc.BVBin("bvand", a, b)
		case token.OR:
			return tc.BVBin("bvor", a, b)
		case token.XOR:
			return tc.BVBin("bvxor", a, b)
		case token.AND_NOT:
			return tc.BVBin("bvand", a, tc.BVNot(b))
		case token.LSS:
			if uns {
				return tc.BVCmp("bvult", a, b)
			}
			return tc.SLt(a, b)
		case token.LEQ:
			if uns {
				return tc.BVCmp("bvule", a, b)
			}
			return tc.SLe(a, b)
		case token.GTR:
			if uns {
				return tc.BVCmp("bvugt", a, b)
			}
			return tc.SGt(a, b)
		case token.GEQ:
			if uns {
				return tc.BVCmp("bvuge", a, b)
			}
			return tc.SGe(a, b)
		}
	}
	panic(unsupported{fmt.Sprintf("binop %s on sort %v", op, a.sort)})
}

// equals returns a Bool term for x == y.
func (ex *Exec) equals(t types.Type, x, y value) *Term {
	tc := ex.tc
	switch a := x.(type) {
	case *Term:
		b, ok := y.(*Term)
		if !ok {
			panic(unsupported{fmt.Sprintf("== on term and %T", y)})
		}
		return tc.Eq(a, b)
	case *value:
		switch b := y.(type) {
		case *value:
			return tc.Bool(a == b)
		case *symPtr:
			return tc.False()
		}
	case *symPtr:
		return tc.False()
	case iface:
		b, ok := y.(iface)
		if !ok {
			panic(unsupported{fmt.Sprintf("== on iface and %T", y)})
		}
		if a.t == nil || b.t == nil {
			return tc.Bool(a.t == nil && b.t == nil)
		}
		if !types.Identical(a.t, b.t) {
			return tc.False()
		}
		return ex.equals(a.t, a.v, b.v)
	case structure:
		b := y.(structure)
		st := t.Underlying().(*types.Struct)
		var cs []*Term
		for i := range a {
			cs = append(cs, ex.equals(st.Field(i).Type(), a[i], b[i]))
		}
		return tc.And(cs...)
	case array:
		b := y.(array)
		et := t.Underlying().(*types.Array).Elem()
		var cs []*Term
		for i := range a {
			cs = append(cs, ex.equals(et, a[i], b[i]))
		}
		return tc.And(cs...)
	case timeV:
		b := y.(timeV)
		return tc.And(tc.Eq(a.q, b.q), tc.Eq(a.rem, b.rem))
	case []value:
		// only comparison with nil is legal
		if b, ok := y.([]value); ok {
			if b == nil {
				return tc.Bool(a == nil)
			}
			if a == nil {
				return tc.Bool(b == nil)
			}
		}
	case *mapV:
		if b, ok := y.(*mapV); ok {
			return tc.Bool(a == b)
		}
	case *chanV:
		if b, ok := y.(*chanV); ok {
			return tc.Bool(a == b)
		}
	case nil:
		switch b := y.(type) {
		case nil:
			return tc.True()
		case *closure:
			return tc.Bool(b == nil)
		case *ssa.Function:
			return tc.Bool(b == nil)
		}
		return tc.False()
	case *closure:
		if y == nil {
			return tc.Bool(a == nil)
		}
	case *ssa.Function:
		if y == nil {
			return tc.Bool(a == nil)
		}
	}
	panic(unsupported{fmt.Sprintf("== on %T and %T", x, y)})
}

func (ex *Exec) conv(dst, src types.Type, x value) value {
	tc := ex.tc
	ud, us := dst.Underlying(), src.Underlying()
	switch d := ud.(type) {
	case *types.Basic:
		switch s := us.(type) {
		case *types.Basic:
			t, ok := x.(*Term)
			if !ok {
				if d.Kind() == types.UnsafePointer || s.Kind() == types.UnsafePointer {
					return x
				}
				panic(unsupported{fmt.Sprintf("conv %s -> %s of %T", src, dst, x)})
			}
			switch {
			case d.Info()&types.IsInteger != 0 && s.Info()&types.IsInteger != 0:
				dw, sw := basicWidth(d), basicWidth(s)
				if dw == sw {
					return t
				}
				if dw < sw {
					return tc.Extract(t, dw-1, 0)
				}
				if s.Info()&types.IsUnsigned != 0 {
					return tc.ZeroExt(t, dw)
				}
				return tc.SignExt(t, dw)
			case d.Info()&types.IsFloat != 0 && s.Info()&types.IsInteger != 0:
				if d.Kind() == types.Float32 {
					panic(unsupported{"float32 conversion"})
				}
				if s.Info()&types.IsUnsigned != 0 {
					return tc.UBVToFP(t)
				}
				return tc.SBVToFP(t)
			case d.Info()&types.IsInteger != 0 && s.Info()&types.IsFloat != 0:
				if d.Info()&types.IsUnsigned != 0 {
					panic(unsupported{"float -> unsigned conversion"})
				}
				return tc.FPToSBV(t, basicWidth(d))
			case d.Info()&types.IsFloat != 0 && s.Info()&types.IsFloat != 0:
				if d.Kind() != s.Kind() && d.Kind() != types.UntypedFloat && s.Kind() != types.UntypedFloat {
					panic(unsupported{"float32/float64 conversion"})
				}
				return t
			case d.Info()&types.IsString != 0 && s.Info()&types.IsInteger != 0:
				if t.IsConst() {
					return tc.StrConst(string(rune(signExt(t.u, t.sort.W))))
				}
				panic(unsupported{"string(symbolic int)"})
			case d.Info()&types.IsString != 0 && s.Info()&types.IsString != 0:
				return t
			case d.Info()&types.IsBoolean != 0 && s.Info()&types.IsBoolean != 0:
				return t
			}
		case *types.Slice:
			// []byte / []rune -> string
			sl := x.([]value)
			if d.Info()&types.IsString != 0 {
				eb := s.Elem().Underlying().(*types.Basic)
				if eb.Kind() == types.Uint8 {
					bs := make([]byte, len(sl))
					for i, e := range sl {
						et := e.(*Term)
						if !et.IsConst() {
							panic(unsupported{"string(symbolic bytes)"})
						}
						bs[i] = byte(et.u)
					}
					return tc.StrConst(string(bs))
				}
				rs := make([]rune, len(sl))
				for i, e := range sl {
					et := e.(*Term)
					if !et.IsConst() {
						panic(unsupported{"string(symbolic runes)"})
					}
					rs[i] = rune(signExt(et.u, 32))
				}
				return tc.StrConst(string(rs))
			}
		case *types.Pointer:
			if d.Kind() == types.UnsafePointer {
				return x
			}
		}
	case *types.Slice:
		if sb, ok := us.(*types.Basic); ok && sb.Info()&types.IsString != 0 {
			t := x.(*Term)
			for !t.IsConst() && t.op == "ite" {
				// a choice between strings: case split on the condition
				if ex.branch(t.args[0]) {
					t = t.args[1]
				} else {
					t = t.args[2]
				}
			}
			if !t.IsConst() {
				panic(unsupported{"[]byte(symbolic string)"})
			}
			eb := d.Elem().Underlying().(*types.Basic)
			if eb.Kind() == types.Uint8 {
				out := make([]value, len(t.s))
				for i := 0; i < len(t.s); i++ {
					out[i] = tc.BVConst(8, uint64(t.s[i]))
				}
				return out
			}
			rs := []rune(t.s)
			out := make([]value, len(rs))
			for i, r := range rs {
				out[i] = tc.BVConst(32, uint64(r))
			}
			return out
		}
	case *types.Pointer:
		if sb, ok := us.(*types.Basic); ok && sb.Kind() == types.UnsafePointer {
			return x
		}
	}
	panic(unsupported{fmt.Sprintf("conv %s -> %s", src, dst)})
}

func (ex *Exec) slice(instr *ssa.Slice, x, lo, hi, max value) value {
	tc := ex.tc
	// strings
	if t, ok := x.(*Term); ok && t.sort.K == SStr {
		var loT, hiT *Term
		if lo != nil {
			loT = tc.BVToInt(lo.(*Term))
		} else {
			loT = tc.IntConst(0)
		}
		ln := tc.StrLen(t)
		if hi != nil {
			hiT = tc.BVToInt(hi.(*Term))
		} else {
			hiT = ln
		}
		bad := tc.Or(tc.IntCmp("<", loT, tc.IntConst(0)), tc.IntCmp(">", loT, hiT), tc.IntCmp(">", hiT, ln))
		if ex.branch(bad) {
			ex.runtimePanic("slice bounds out of range")
		}
		return tc.StrSubstr(t, loT, tc.IntBin("-", hiT, loT))
	}
	var s []value
	switch a := x.(type) {
	case []value:
		s = a
	case *value: // *array
		if a == nil {
			ex.runtimePanic("nil array pointer")
		}
		s = []value((*a).(array))
	default:
		panic(unsupported{fmt.Sprintf("slice of %T", x)})
	}
	l := int64(0)
	h := int64(len(s))
	m := int64(cap(s))
	if lo != nil {
		l = ex.smallInt(lo, "slice low")
	}
	if hi != nil {
		h = ex.smallInt(hi, "slice high")
	}
	if max != nil {
		m = ex.smallInt(max, "slice max")
	}
	if l < 0 || l > h || h > m || m > int64(cap(s)) {
		ex.runtimePanic("slice bounds out of range")
	}
	if s == nil {
		return []value(nil)
	}
	return s[l:h:m]
}

func (ex *Exec) elemCells(x value) []*value {
	switch a := x.(type) {
	case []value:
		cs := make([]*value, len(a))
		for i := range a {
			cs[i] = &a[i]
		}
		return cs
	case *value:
		if a == nil {
			ex.runtimePanic("nil array pointer")
		}
		arr := (*a).(array)
		cs := make([]*value, len(arr))
		for i := range arr {
			cs[i] = &arr[i]
		}
		return cs
	}
	panic(unsupported{fmt.Sprintf("index of %T", x)})
}

func (ex *Exec) indexAddr(fr *frame, instr *ssa.IndexAddr) value {
	x := fr.get(instr.X)
	idx := fr.get(instr.Index).(*Term)
	if idx.sort.W != 64 {
		if isUnsigned(instr.Index.Type()) {
			idx = ex.tc.ZeroExt(idx, 64)
		} else {
			idx = ex.tc.SignExt(idx, 64)
		}
	}
	cells := ex.elemCells(x)
	n := len(cells)
	if idx.IsConst() {
		i := signExt(idx.u, 64)
		if i < 0 || i >= int64(n) {
			ex.runtimePanic(fmt.Sprintf("index out of range [%d] with length %d", i, n))
		}
		return cells[i]
	}
	oob := ex.tc.Or(ex.tc.SLt(idx, ex.tc.Int64(0)), ex.tc.SGe(idx, ex.tc.Int64(int64(n))))
	if rg := ex.rangeOf(idx, 0); rg.lo >= 0 && rg.hi < int64(n) {
		// in range by interval analysis of the path condition: no check needed
	} else if ex.branch(oob) {
		ex.runtimePanic("index out of range (symbolic)")
	}
	if n == 1 {
		return cells[0]
	}
	// scalar cells: symbolic pointer (no fork); otherwise case split
	scalar := true
	for _, c := range cells {
		switch (*c).(type) {
		case *Term, timeV:
		default:
			scalar = false
		}
	}
	if scalar {
		return &symPtr{cells: cells, idx: idx}
	}
	conds := make([]*Term, n)
	for i := range conds {
		conds[i] = ex.tc.Eq(idx, ex.tc.Int64(int64(i)))
	}
	k := ex.choose(conds)
	return cells[k]
}

func (ex *Exec) index(fr *frame, instr *ssa.Index) value {
	x := fr.get(instr.X)
	idx := fr.get(instr.Index).(*Term)
	switch a := x.(type) {
	case array:
		i := ex.concreteInt(idx, "array index")
		if i < 0 || i >= int64(len(a)) {
			ex.runtimePanic("index out of range")
		}
		return copyVal(a[i])
	case *Term: // string
		ii := ex.tc.BVToInt(idx)
		ln := ex.tc.StrLen(a)
		bad := ex.tc.Or(ex.tc.IntCmp("<", ii, ex.tc.IntConst(0)), ex.tc.IntCmp(">=", ii, ln))
		if ex.branch(bad) {
			ex.runtimePanic("string index out of range")
		}
		return ex.tc.IntToBV(ex.tc.StrCodeAt(a, ii), 8)
	}
	panic(unsupported{fmt.Sprintf("index of %T", x)})
}

// ---------- maps ----------

// keyEq returns a Bool term for key equality.
func (ex *Exec) keyEq(kt types.Type, a, b value) *Term { return ex.equals(kt, a, b) }

// findKey locates key in m, forking on symbolic equalities. Returns index or -1.
func (ex *Exec) findKey(m *mapV, key value) int {
	for i, k := range m.keys {
		e := ex.keyEq(m.kt, k, key)
		if e.IsConst() {
			if e.BoolVal() {
				return i
			}
			continue
		}
		if ex.branch(e) {
			return i
		}
	}
	return -1
}

func (ex *Exec) lookup(instr *ssa.Lookup, x, key value) value {
	if t, ok := x.(*Term); ok { // string index
		idx := key.(*Term)
		ii := ex.tc.BVToInt(idx)
		ln := ex.tc.StrLen(t)
		bad := ex.tc.Or(ex.tc.IntCmp("<", ii, ex.tc.IntConst(0)), ex.tc.IntCmp(">=", ii, ln))
		if ex.branch(bad) {
			ex.runtimePanic("string index out of range")
		}
		return ex.tc.IntToBV(ex.tc.StrCodeAt(t, ii), 8)
	}
	m := x.(*mapV)
	vt := instr.X.Type().Underlying().(*types.Map).Elem()
	var v value
	found := false
	if m != nil {
		ex.noteMapAccess(m, false)
		if i := ex.findKey(m, key); i >= 0 {
			v = copyVal(m.vals[i])
			found = true
		}
	}
	if !found {
		v = ex.zero(vt)
	}
	if instr.CommaOk {
		return tuple{v, ex.tc.Bool(found)}
	}
	return v
}

func (ex *Exec) mapUpdate(mv, key, v value) {
	m := mv.(*mapV)
	if m == nil {
		ex.runtimePanic("assignment to entry in nil map")
	}
	ex.noteMapAccess(m, true)
	if i := ex.findKey(m, key); i >= 0 {
		if ex.journalOn {
			panic(mergeFail{"map update inside merged function"})
		}
		m.vals[i] = copyVal(v)
		return
	}
	if ex.journalOn {
		panic(mergeFail{"map insert inside merged function"})
	}
	m.keys = append(m.keys, copyVal(key))
	m.vals = append(m.vals, copyVal(v))
}

func (ex *Exec) mapDelete(m *mapV, key value) {
	if m == nil {
		return
	}
	ex.noteMapAccess(m, true)
	if i := ex.findKey(m, key); i >= 0 {
		if ex.journalOn {
			panic(mergeFail{"map delete inside merged function"})
		}
		m.keys = append(append([]value{}, m.keys[:i]...), m.keys[i+1:]...)
		m.vals = append(append([]value{}, m.vals[:i]...), m.vals[i+1:]...)
	}
}

func (ex *Exec) rangeIter(x value, t types.Type) value {
	switch a := x.(type) {
	case *mapV:
		it := &iterV{m: a}
		if a != nil {
			ex.noteMapAccess(a, false)
			it.keys = append([]value{}, a.keys...)
			it.vals = append([]value{}, a.vals...)
			// symbolic choice of iteration order for small maps (Go's order is unspecified)
			if n := len(it.keys); n >= 2 && n <= ex.job.MapPermMax && ex.permHere() {
				perms := permutations(n)
				conds := make([]*Term, len(perms))
				name := ex.freshName("maporder")
				v := ex.tc.Var(name, BV(8))
				ex.noteInput(v)
				for i := range perms {
					if i == len(perms)-1 {
						conds[i] = ex.tc.BVCmp("bvuge", v, ex.tc.BVConst(8, uint64(i)))
					} else {
						conds[i] = ex.tc.Eq(v, ex.tc.BVConst(8, uint64(i)))
					}
				}
				p := perms[ex.choose(conds)]
				ks := make([]value, n)
				vs := make([]value, n)
				for i, j := range p {
					ks[i], vs[i] = it.keys[j], it.vals[j]
				}
				it.keys, it.vals = ks, vs
			}
		}
		return it
	case *Term:
		if !a.IsConst() {
			panic(unsupported{"range over symbolic string"})
		}
		return &iterV{isS: true, str: a}
	}
	panic(unsupported{fmt.Sprintf("range over %T", x)})
}

func permutations(n int) [][]int {
	var res [][]int
	var rec func(cur []int, used []bool)
	rec = func(cur []int, used []bool) {
		if len(cur) == n {
			res = append(res, append([]int{}, cur...))
			return
		}
		for i := 0; i < n; i++ {
			if !used[i] {
				used[i] = true
				rec(append(cur, i), used)
				used[i] = false
			}
		}
	}
	rec(nil, make([]bool, n))
	return res
}

func (ex *Exec) iterNext(it *iterV, instr *ssa.Next) value {
	tc := ex.tc
	if it.isS {
		s := it.str.s
		if it.pos >= len(s) {
			return tuple{tc.False(), tc.Int64(0), tc.BVConst(32, 0)}
		}
		// decode one rune
		r, size := decodeRune(s[it.pos:])
		res := tuple{tc.True(), tc.Int64(int64(it.pos)), tc.BVConst(32, uint64(r))}
		it.pos += size
		return res
	}
	tt := instr.Type().(*types.Tuple)
	for it.pos < len(it.keys) {
		k, v := it.keys[it.pos], it.vals[it.pos]
		it.pos++
		// skip entries deleted during iteration
		still := false
		for i, mk := range it.m.keys {
			if sameVal(mk, k) {
				still = true
				v = it.m.vals[i]
				break
			}
		}
		if !still {
			continue
		}
		return tuple{tc.True(), copyVal(k), copyVal(v)}
	}
	return tuple{tc.False(), ex.zeroOrNil(tt.At(1).Type()), ex.zeroOrNil(tt.At(2).Type())}
}

func (ex *Exec) zeroOrNil(t types.Type) value {
	if b, ok := t.(*types.Basic); ok && b.Kind() == types.Invalid {
		return nil
	}
	return ex.zero(t)
}

func decodeRune(s string) (rune, int) {
	for i, r := range s {
		_ = i
		n := len(string(r))
		if r == 0xFFFD {
			n = 1
		}
		return r, n
	}
	return 0, 0
}

// ---------- type assertions ----------

func (ex *Exec) typeAssert(instr *ssa.TypeAssert, itf iface) value {
	var v value
	ok := false
	if itf.t != nil {
		if it, isI := instr.AssertedType.Underlying().(*types.Interface); isI {
			if types.Implements(itf.t, it) || implementsViaMethodSet(ex.prog, itf.t, it) {
				v = itf
				ok = true
			}
		} else if types.Identical(itf.t, instr.AssertedType) {
			v = copyVal(itf.v)
			ok = true
		}
	}
	if !ok {
		if !instr.CommaOk {
			panic(targetPanic{ex.newErrorValue(fmt.Sprintf("interface conversion: interface is %v, not %v", itf.t, instr.AssertedType))})
		}
		v = ex.zero(instr.AssertedType)
	}
	if instr.CommaOk {
		return tuple{v, ex.tc.Bool(ok)}
	}
	return v
}

func implementsViaMethodSet(prog *ssa.Program, t types.Type, it *types.Interface) bool {
	ms := prog.MethodSets.MethodSet(t)
	for i := 0; i < it.NumMethods(); i++ {
		m := it.Method(i)
		if ms.Lookup(m.Pkg(), m.Name()) == nil {
			return false
		}
	}
	return true
}

// ---------- builtins ----------

func (ex *Exec) callBuiltin(caller *frame, fn *ssa.Builtin, args []value, pos token.Pos) value {
	tc := ex.tc
	switch fn.Name() {
	case "append":
		if len(args) == 1 {
			return args[0]
		}
		if t, ok := args[1].(*Term); ok { // append([]byte, string...)
			if !t.IsConst() {
				panic(unsupported{"append of symbolic string"})
			}
			s := args[0].([]value)
			for i := 0; i < len(t.s); i++ {
				s = append(s, tc.BVConst(8, uint64(t.s[i])))
			}
			return s
		}
		a := args[0].([]value)
		b := args[1].([]value)
		if len(a)+len(b) <= cap(a) && len(b) > 0 {
			// in-place growth: journal affected cells when merging
			n := a[:len(a)+len(b)]
			for i, e := range b {
				ex.storeCell(&n[len(a)+i], copyVal(e))
			}
			return n
		}
		n := make([]value, len(a), (len(a)+len(b))*2+1)
		copy(n, a)
		for _, e := range b {
			n = append(n, copyVal(e))
		}
		if a == nil && len(b) == 0 {
			return a
		}
		return n
	case "copy":
		dst := args[0].([]value)
		if t, ok := args[1].(*Term); ok {
			if !t.IsConst() {
				panic(unsupported{"copy from symbolic string"})
			}
			n := len(dst)
			if len(t.s) < n {
				n = len(t.s)
			}
			for i := 0; i < n; i++ {
				ex.storeCell(&dst[i], tc.BVConst(8, uint64(t.s[i])))
			}
			return tc.Int64(int64(n))
		}
		src := args[1].([]value)
		n := len(dst)
		if len(src) < n {
			n = len(src)
		}
		tmp := make([]value, n)
		for i := 0; i < n; i++ {
			tmp[i] = copyVal(src[i])
		}
		for i := 0; i < n; i++ {
			ex.storeCell(&dst[i], tmp[i])
		}
		return tc.Int64(int64(n))
	case "close":
		return nil
	case "clear":
		switch x := args[0].(type) {
		case *mapV:
			if x != nil {
				ex.noteMapAccess(x, true)
				if ex.journalOn {
					panic(mergeFail{"map clear inside merged function"})
				}
				x.keys, x.vals = nil, nil
			}
		case []value:
			for i := range x {
				ex.storeCell(&x[i], ex.zeroLike(x[i]))
			}
		}
		return nil
	case "delete":
		ex.mapDelete(args[0].(*mapV), args[1])
		return nil
	case "print", "println":
		return nil
	case "len":
		switch x := args[0].(type) {
		case *Term:
			return tc.IntToBV(tc.StrLen(x), 64)
		case array:
			return tc.Int64(int64(len(x)))
		case *value:
			return tc.Int64(int64(len((*x).(array))))
		case []value:
			return tc.Int64(int64(len(x)))
		case *mapV:
			if x == nil {
				return tc.Int64(0)
			}
			ex.noteMapAccess(x, false)
			return tc.Int64(int64(len(x.keys)))
		case *chanV:
			return tc.Int64(0)
		}
		panic(unsupported{fmt.Sprintf("len of %T", args[0])})
	case "cap":
		switch x := args[0].(type) {
		case array:
			return tc.Int64(int64(len(x)))
		case *value:
			return tc.Int64(int64(len((*x).(array))))
		case []value:
			return tc.Int64(int64(cap(x)))
		case *chanV:
			return tc.Int64(0)
		}
		panic(unsupported{fmt.Sprintf("cap of %T", args[0])})
	case "min", "max":
		res := args[0].(*Term)
		for _, a := range args[1:] {
			b := a.(*Term)
			var c *Term
			if res.sort.K == SFP {
				if fn.Name() == "min" {
					c = tc.FPCmp("fp.lt", b, res)
				} else {
					c = tc.FPCmp("fp.gt", b, res)
				}
			} else {
				uns := false
				if sig, ok := fn.Type().(*types.Signature); ok && sig.Params().Len() > 0 {
					uns = isUnsigned(sig.Params().At(0).Type())
				}
				op := "bvslt"
				if uns {
					op = "bvult"
				}
				if fn.Name() == "min" {
					c = tc.BVCmp(op, b, res)
				} else {
					c = tc.BVCmp(op, res, b)
				}
			}
			res = tc.Ite(c, b, res)
		}
		return res
	case "panic":
		panic(targetPanic{args[0]})
	case "recover":
		return ex.doRecover(caller)
	case "ssa:wrapnilchk":
		recv := args[0]
		if p, ok := recv.(*value); ok && p == nil {
			ex.runtimePanic("value method called using nil pointer")
		}
		return recv
	}
	panic(unsupported{"builtin " + fn.Name()})
}

func (ex *Exec) doRecover(caller *frame) value {
	if caller != nil && !caller.panicking && caller.caller != nil && caller.caller.panicking {
		caller.caller.panicking = false
		p := caller.caller.panic
		caller.caller.panic = nil
		if tp, ok := p.(targetPanic); ok {
			if _, isI := tp.v.(iface); isI {
				return tp.v
			}
			return iface{t: types.Typ[types.String], v: tp.v}
		}
		panic(p)
	}
	return iface{}
}

// smallInt returns a concrete value for an integer term, case-splitting over its (small)
// range when it is symbolic.
func (ex *Exec) smallInt(v value, what string) int64 {
	t, ok := v.(*Term)
	if !ok {
		panic(unsupported{"non-term " + what})
	}
	if t.IsConst() {
		return signExt(t.u, t.sort.W)
	}
	r := ex.rangeOf(t, 0)
	if r.hi-r.lo > 64 || r.hi-r.lo < 0 {
		panic(unsupported{fmt.Sprintf("symbolic %s with range [%d,%d]", what, r.lo, r.hi)})
	}
	conds := make([]*Term, 0, r.hi-r.lo+1)
	for x := r.lo; x <= r.hi; x++ {
		conds = append(conds, ex.tc.Eq(t, ex.tc.Int64(x)))
	}
	return r.lo + int64(ex.choose(conds))
}

// zeroLike returns the zero value with the shape of v (for clear on slices).
func (ex *Exec) zeroLike(v value) value {
	switch x := v.(type) {
	case *Term:
		switch x.sort.K {
		case SBool:
			return ex.tc.False()
		case SBV:
			return ex.tc.BVConst(x.sort.W, 0)
		case SFP:
			return ex.tc.FPConst(0)
		case SStr:
			return ex.tc.StrConst("")
		}
	case *value:
		return (*value)(nil)
	case structure:
		n := make(structure, len(x))
		for i := range x {
			n[i] = ex.zeroLike(x[i])
		}
		return n
	case iface:
		return iface{}
	}
	panic(unsupported{"clear on slice of this element kind"})
}

// permHere reports whether the iteration order of the current range is symbolic: always,
// unless the job restricts it to the functions named in MapPermFns.
func (ex *Exec) permHere() bool {
	if len(ex.job.MapPermFns) == 0 {
		return true
	}
	for _, f := range ex.job.MapPermFns {
		if strings.Contains(ex.rangeFn, f) {
			return true
		}
	}
	return false
}
