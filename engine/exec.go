package main

import (
	"fmt"
	"go/token"
	"go/types"
	"sort"
	"strings"

	"golang.org/x/tools/go/ssa"
)

const timeW = 80

// ---------- control signals (Go panics inside the engine that are not target panics) ----------

type pathKill struct{ reason string }   // path infeasible / assumption false
type unsupported struct{ msg string }   // construct the engine cannot execute
type unwindFail struct{ where string }  // loop bound hit on a feasible path
type targetPanic struct{ v value }      // panic of the program under analysis
type pathDone struct{}                  // verifStop()
type budgetExceeded struct{ msg string }

type jentry struct {
	p   *value
	old value
}

type deferred struct {
	fn    value
	args  []value
	instr *ssa.Defer
	tail  *deferred
}

type frame struct {
	ex        *Exec
	caller    *frame
	fn        *ssa.Function
	block     *ssa.BasicBlock
	prevBlock *ssa.BasicBlock
	env       map[ssa.Value]value
	locals    []value
	defers    *deferred
	result    value
	panicking bool
	panic     interface{}
	backEdges map[*ssa.BasicBlock]int
}

// trace entry: one symbolic choice point
type choice struct {
	n       int     // number of alternatives
	conds   []*Term // condition of each alternative
	feas    []int8  // 1 feasible, 0 infeasible, -1 untested
	taken   int
	pcIndex int  // length of pathCond before this choice's condition was added
	forced  bool // only one feasible alternative: nothing asserted
	level   int  // solver level before push
}

type Obligation struct {
	Label    string
	Path     int
	Verdict  string // discharged, violated, unknown, trivial
	Backend  string
	Elapsed  float64
	Model    map[string]MVal
	Pos      string
	Known    string
	Per      map[string]string
	ErrLines []string
}

type lockState struct {
	writer  bool
	readers int
}

type accessRec struct {
	cell  *value
	write bool
	locks string // canonical description of locks held
	pos   string
}

type Exec struct {
	rangeFn string // function executing the current range instruction
	prog   *ssa.Program
	tc     *TermCtx
	job    *Job
	inc    *IncSolver
	params map[string]int64

	// per path
	pathCond  []*Term
	trace     []*choice
	tracePos  int
	pcPos     int // replay cursor in pathCond
	globals   map[*ssa.Global]*value
	initDone  map[*ssa.Package]bool
	fresh     map[string]int
	inputs    []*Term
	inputSeen map[string]bool
	clock     timeV
	clockSet  bool
	grid      int64
	locks     map[*value]*lockState
	lockOrder []*value
	spawned   []func()
	ghost     map[string]value
	depth     int
	steps     int64
	journalOn bool
	journal   []jentry
	reached   map[string]bool
	observed  []obsRec
	stubs     map[string]value
	accessLog []accessRec
	logAccess bool
	sharedSet map[*value]bool
	nextID    int
	onces     map[*value]bool
	files     *fileTable

	// per job accumulators
	obligations []*Obligation
	paths       int
	pathsEnded  map[string]int
	branchQ     int
	funcsSeen   map[*ssa.Function]bool
	reachedAny  map[string]bool
	incon       []string
	pathNo      int
	stubsUsed   map[string]bool
	modelsUsed  map[string]bool
	maxUnwind   int
	unwindHit   int
	knownSeen   map[string]bool
	mergeCache  map[string]*mergeEntry
	mergeSeq    int
	noSolver    bool
	sharedMaps  map[*mapV]bool
	mapLog      []mapAccessRec
	sharedOrder []*value
	known       map[int]bool // per path: truth of condition terms implied by the path so far
	cmodels     []*cmodel    // per job: cached models (counterexample cache)
	cacheHits   int
	bounds      map[int]ival
	linForms    map[int]linForm
	oneShotBranch int
	restarts      int
	sharedRoots   []value
	cellNames     map[*value]string
	witness       map[string]MVal
	interleave    *interleaveState
	lockHook      value
	inLockHook    bool
}

type obsRec struct {
	name string
	v    value
}

func (ex *Exec) freshName(base string) string {
	n := ex.fresh[base]
	ex.fresh[base] = n + 1
	if n == 0 {
		return base
	}
	return fmt.Sprintf("%s!%d", base, n)
}

func (ex *Exec) pos(p token.Pos) string {
	if p == token.NoPos {
		return ""
	}
	ps := ex.prog.Fset.Position(p)
	return fmt.Sprintf("%s:%d", ps.Filename, ps.Line)
}

// ---------- path condition management ----------

// addCond appends c to the path condition (asserting it in the incremental solver
// unless we are replaying a known prefix).
func (ex *Exec) addCond(c *Term) {
	if c.IsConst() {
		if !c.BoolVal() {
			panic(pathKill{"false condition"})
		}
		return
	}
	ex.learnBounds(c)
	ex.noteTrue(c)
	if ex.pcPos < len(ex.pathCond) {
		if ex.pathCond[ex.pcPos] != c {
			panic(fmt.Sprintf("nondeterministic re-execution: path condition %d differs", ex.pcPos))
		}
		ex.pcPos++
		return
	}
	ex.pathCond = append(ex.pathCond, c)
	ex.pcPos++
	if !ex.noSolver {
		ex.inc.Assert(c)
	}
}

// choose picks one of the alternatives (mutually exclusive, exhaustive conditions).
func (ex *Exec) choose(conds []*Term) int {
	// constant shortcut
	nTrue := -1
	allConst := true
	for i, c := range conds {
		if !c.IsConst() {
			allConst = false
		} else if c.BoolVal() {
			nTrue = i
		}
	}
	if allConst {
		if nTrue < 0 {
			panic(pathKill{"no alternative"})
		}
		return nTrue
	}
	if ex.tracePos < len(ex.trace) {
		ch := ex.trace[ex.tracePos]
		ex.tracePos++
		if ch.n != len(conds) {
			panic("nondeterministic re-execution: choice arity differs")
		}
		if !ch.forced {
			ex.addCond(ch.conds[ch.taken])
		}
		ex.noteTaken(ch.conds, ch.taken)
		return ch.taken
	}
	ch := &choice{n: len(conds), conds: conds, feas: make([]int8, len(conds)), taken: -1}
	nf := 0
	first := -1
	// facts already implied by this path
	for i, c := range conds {
		if v, ok := ex.known[c.id]; ok && v {
			for j := range ch.feas {
				ch.feas[j] = 0
			}
			ch.feas[i] = 1
			ch.taken = i
			ch.forced = true
			ch.pcIndex = len(ex.pathCond)
			ch.level = ex.inc.depth
			ex.trace = append(ex.trace, ch)
			ex.tracePos++
			return i
		}
	}
	for i, c := range conds {
		if c.IsConst() {
			if c.BoolVal() {
				ch.feas[i] = 1
			} else {
				ch.feas[i] = 0
			}
		} else if v, ok := ex.known[c.id]; ok && !v {
			ch.feas[i] = 0
		} else if v, ok := ex.rangeDecide(c); ok {
			if v {
				ch.feas[i] = 1
			} else {
				ch.feas[i] = 0
			}
		} else if ex.journalOn && ex.job.MergeBlind {
			ch.feas[i] = 1
		} else if ex.cachedModelSatisfies(c) {
			ch.feas[i] = 1
			ex.cacheHits++
		} else {
			r, model := ex.inc.CheckWithModel(c, ex.tc.allVars())
			ex.branchQ++
			if ex.inc.dead && ex.restartInc() {
				r, model = ex.inc.CheckWithModel(c, nil)
			}
			if r == "unknown" && !ex.inc.dead {
				// the incremental back end gave up: decide the branch with fresh one-shot solvers
				asserts := append(append([]*Term{}, ex.pathCond[:ex.pcPos]...), c)
				sr := SolvePortfolio(asserts, collectVars(asserts), ex.job.Solvers, ex.job.BranchTimeoutS, false)
				ex.oneShotBranch++
				if sr.Verdict == "unsat" {
					r = "unsat"
				} else if sr.Verdict == "sat" {
					r, model = "sat", sr.Model
				}
			}
			if r == "unsat" {
				ch.feas[i] = 0
			} else {
				ch.feas[i] = 1
				if model != nil {
					ex.addModel(model)
				}
			}
		}
		if ch.feas[i] == 1 {
			nf++
			if first < 0 {
				first = i
			}
		}
	}
	if nf == 0 {
		panic(pathKill{"all alternatives infeasible"})
	}
	ch.taken = first
	ch.pcIndex = len(ex.pathCond)
	ch.level = ex.inc.depth
	ex.trace = append(ex.trace, ch)
	ex.tracePos++
	if nf == 1 {
		ch.forced = true
		ex.noteTaken(conds, first)
		return first
	}
	ex.inc.Push()
	ex.addCond(conds[first])
	ex.noteTaken(conds, first)
	return first
}

// noteTaken records that alternative k holds on this path (alternatives are exclusive).
func (ex *Exec) noteTaken(conds []*Term, k int) {
	ex.learnBounds(conds[k])
	for i, c := range conds {
		if c.IsConst() {
			continue
		}
		ex.known[c.id] = i == k
		if c.op == "not" {
			ex.known[c.args[0].id] = i != k
		}
	}
}

func (ex *Exec) addModel(m map[string]MVal) {
	ex.cmodels = append(ex.cmodels, newCModel(m))
	if len(ex.cmodels) > 16 {
		ex.cmodels = ex.cmodels[1:]
	}
}

// cachedModelSatisfies: does some cached model satisfy the current path condition and c?
func (ex *Exec) cachedModelSatisfies(c *Term) bool {
	if ex.noSolver {
		return false
	}
	for k := len(ex.cmodels) - 1; k >= 0; k-- {
		m := ex.cmodels[k]
		ok := true
		for _, pc := range ex.pathCond[:ex.pcPos] {
			v := m.eval(ex.tc, pc)
			if v == nil || !v.BoolVal() {
				ok = false
				break
			}
		}
		if !ok {
			continue
		}
		if v := m.eval(ex.tc, c); v != nil && v.BoolVal() {
			return true
		}
	}
	return false
}

// branch on a boolean term
func (ex *Exec) branch(c *Term) bool {
	if c.IsConst() {
		return c.BoolVal()
	}
	return ex.choose([]*Term{c, ex.tc.Not(c)}) == 0
}

// backtrack prepares the next path; returns false when the exploration is complete.
func (ex *Exec) backtrack() bool {
	for i := len(ex.trace) - 1; i >= 0; i-- {
		ch := ex.trace[i]
		if ch.forced {
			continue
		}
		next := -1
		for j := ch.taken + 1; j < ch.n; j++ {
			if ch.feas[j] == 1 {
				next = j
				break
			}
		}
		if next < 0 {
			continue
		}
		ex.trace = ex.trace[:i+1]
		ex.pathCond = ex.pathCond[:ch.pcIndex]
		ex.inc.PopTo(ch.level)
		ch.taken = next
		// is it the last feasible alternative? still push so levels stay aligned
		ex.inc.Push()
		ex.pathCond = append(ex.pathCond, ch.conds[next])
		ex.inc.Assert(ch.conds[next])
		return true
	}
	return false
}

// ---------- frames ----------

func (fr *frame) get(key ssa.Value) value {
	switch key := key.(type) {
	case nil:
		return nil
	case *ssa.Function:
		return key
	case *ssa.Builtin:
		return key
	case *ssa.Const:
		return fr.ex.constValue(key)
	case *ssa.Global:
		return fr.ex.globalAddr(key)
	}
	if r, ok := fr.env[key]; ok {
		return r
	}
	panic(fmt.Sprintf("get: no value for %T: %v in %s", key, key.Name(), fr.fn))
}

func (ex *Exec) constValue(c *ssa.Const) value {
	if c.Value == nil {
		return ex.zero(c.Type())
	}
	t := c.Type().Underlying()
	if b, ok := t.(*types.Basic); ok {
		switch {
		case b.Info()&types.IsBoolean != 0:
			return ex.tc.Bool(constantBool(c))
		case b.Info()&types.IsInteger != 0:
			if b.Info()&types.IsUnsigned != 0 {
				return ex.tc.BVConst(basicWidth(b), c.Uint64())
			}
			return ex.tc.BVConst(basicWidth(b), uint64(c.Int64()))
		case b.Info()&types.IsFloat != 0:
			f := c.Float64()
			if b.Kind() == types.Float32 {
				f = float64(float32(f))
			}
			return ex.tc.FPConst(f)
		case b.Info()&types.IsString != 0:
			return ex.tc.StrConst(constantString(c))
		}
	}
	if _, ok := t.(*types.TypeParam); ok {
		panic(unsupported{"const of type parameter"})
	}
	panic(unsupported{"const of type " + c.Type().String()})
}

func (ex *Exec) globalAddr(g *ssa.Global) *value {
	if p, ok := ex.globals[g]; ok {
		return p
	}
	// make sure an interpreted package is initialised before its globals are used
	if g.Pkg != nil && ex.interpPkg(g.Pkg) && !ex.initDone[g.Pkg] {
		ex.runInit(g.Pkg)
		if p, ok := ex.globals[g]; ok {
			return p
		}
	}
	p := new(value)
	et := g.Type().(*types.Pointer).Elem()
	*p = ex.zero(et)
	ex.globals[g] = p
	if g.Pkg != nil && !ex.interpPkg(g.Pkg) {
		ex.lazyStdGlobal(g, p, et)
	}
	return p
}

func (ex *Exec) interpPkg(p *ssa.Package) bool {
	path := p.Pkg.Path()
	return strings.HasPrefix(path, "github.com/vulcand/oxy/v2") || path == "github.com/mailgun/multibuf" ||
		path == "encoding/base64" || path == "github.com/segmentio/fasthash/fnv1a"
}

func (ex *Exec) runInit(p *ssa.Package) {
	if ex.initDone[p] {
		return
	}
	ex.initDone[p] = true
	// allocate all globals first
	for _, m := range p.Members {
		if g, ok := m.(*ssa.Global); ok {
			if _, ok := ex.globals[g]; !ok {
				c := new(value)
				*c = ex.zero(g.Type().(*types.Pointer).Elem())
				ex.globals[g] = c
			}
		}
	}
	if init := p.Func("init"); init != nil {
		ex.callFunction(nil, init, nil, nil, token.NoPos)
	}
}

// ---------- calls ----------

func (ex *Exec) prepareCall(fr *frame, call *ssa.CallCommon) (fn value, args []value) {
	v := fr.get(call.Value)
	if call.Method == nil {
		fn = v
	} else {
		recv, ok := v.(iface)
		if !ok {
			panic(unsupported{fmt.Sprintf("invoke on %T", v)})
		}
		if recv.t == nil {
			ex.runtimePanic("invalid memory address or nil pointer dereference (method on nil interface)")
		}
		f := ex.prog.LookupMethod(recv.t, call.Method.Pkg(), call.Method.Name())
		if f == nil {
			panic(unsupported{fmt.Sprintf("method %s not found for %s", call.Method.Name(), recv.t)})
		}
		fn = f
		args = append(args, recv.v)
	}
	for _, a := range call.Args {
		args = append(args, fr.get(a))
	}
	return
}

func (ex *Exec) call(caller *frame, fn value, args []value, pos token.Pos) value {
	switch f := fn.(type) {
	case *ssa.Function:
		if f == nil {
			ex.runtimePanic("call of nil function")
		}
		return ex.callFunction(caller, f, args, nil, pos)
	case *closure:
		return ex.callFunction(caller, f.fn, args, f.env, pos)
	case *ssa.Builtin:
		return ex.callBuiltin(caller, f, args, pos)
	case nil:
		ex.runtimePanic("call of nil function")
	}
	panic(unsupported{fmt.Sprintf("cannot call %T", fn)})
}

func (ex *Exec) callFunction(caller *frame, fn *ssa.Function, args []value, env []value, pos token.Pos) value {
	name := fn.String()
	if fn.Parent() == nil {
		if fn.Name() == "init" && fn.Pkg != nil && fn.Signature.Recv() == nil && fn.Synthetic != "" {
			if !ex.interpPkg(fn.Pkg) {
				return nil // std / third-party package initialisers are not executed (models instead)
			}
			ex.initDone[fn.Pkg] = true
		}
		if fn.Pkg != nil && (strings.HasPrefix(fn.Name(), "verif") || strings.HasPrefix(fn.Name(), "strings")) && fn.Signature.Recv() == nil {
			if r, ok := ex.intrinsic(caller, fn, args, pos); ok {
				return r
			}
		}
		if st, ok := ex.stubs[name]; ok {
			ex.stubsUsed[name] = true
			return ex.call(caller, st, args, pos)
		}
		if m, ok := models[name]; ok {
			ex.modelsUsed[name] = true
			return m(ex, caller, fn, args)
		}
		if ex.job.Merge[name] && !ex.journalOn {
			return ex.callMerged(caller, fn, args, env, pos)
		}
	}
	return ex.callFunctionBody(caller, fn, args, env, pos)
}

// packages whose code depends on runtime internals the executor does not model (type
// descriptors, weak pointers, interning): calling into them without a model is unsupported
// rather than silently approximate
var opaquePkgs = map[string]bool{"unique": true, "reflect": true, "internal/reflectlite": true, "runtime": true, "weak": true, "internal/weak": true, "internal/abi": true, "sync/atomic": true, "internal/runtime/atomic": true}

func (ex *Exec) callFunctionBody(caller *frame, fn *ssa.Function, args []value, env []value, pos token.Pos) value {
	name := fn.String()
	pk := fn.Pkg
	if pk == nil && fn.Origin() != nil {
		pk = fn.Origin().Pkg // instantiation of a generic function
	}
	if pk != nil && pk.Pkg.Path() == "net" {
		n := fn.Name()
		if strings.HasPrefix(n, "Resolve") || strings.HasPrefix(n, "Dial") || strings.HasPrefix(n, "Listen") || strings.HasPrefix(n, "Lookup") || strings.Contains(name, "Resolver)") {
			panic(unsupported{"name resolution / network I/O is not modelled: " + name})
		}
	}
	if pk != nil && opaquePkgs[pk.Pkg.Path()] {
		panic(unsupported{"call into " + pk.Pkg.Path() + " (runtime-dependent, not modelled): " + name})
	}
	if fn.Blocks == nil {
		panic(unsupported{"no code for function: " + name})
	}
	if fn.TypeParams().Len() > 0 && len(fn.TypeArgs()) == 0 {
		panic(unsupported{"uninstantiated generic " + name})
	}
	ex.funcsSeen[fn] = true
	ex.depth++
	if ex.depth > 400 {
		panic(unsupported{"call depth exceeded at " + name})
	}
	defer func() { ex.depth-- }()
	fr := &frame{ex: ex, caller: caller, fn: fn}
	fr.env = make(map[ssa.Value]value, 16)
	fr.block = fn.Blocks[0]
	fr.locals = make([]value, len(fn.Locals))
	for i, l := range fn.Locals {
		fr.locals[i] = ex.zero(l.Type().(*types.Pointer).Elem())
		fr.env[l] = &fr.locals[i]
	}
	for i, p := range fn.Params {
		fr.env[p] = args[i]
	}
	for i, fv := range fn.FreeVars {
		fr.env[fv] = env[i]
	}
	for fr.block != nil {
		ex.runFrame(fr)
	}
	return fr.result
}

func isControl(p interface{}) bool {
	switch p.(type) {
	case pathKill, unsupported, unwindFail, pathDone, budgetExceeded, mergeFail:
		return true
	}
	return false
}

func (ex *Exec) runFrame(fr *frame) {
	defer func() {
		if fr.block == nil {
			return // normal return
		}
		p := recover()
		if _, ok := p.(targetPanic); !ok {
			// engine control signal or engine bug: propagate untouched
			panic(p)
		}
		fr.panicking = true
		fr.panic = p
		fr.runDefers()
		fr.block = fr.fn.Recover
		if fr.block == nil {
			// recovered, no named results: return zero values
			fr.result = ex.zeroResults(fr.fn)
		}
	}()
	for {
		// phis (parallel assignment)
		instrs := fr.block.Instrs
		np := 0
		for np < len(instrs) {
			if _, ok := instrs[np].(*ssa.Phi); !ok {
				break
			}
			np++
		}
		if np > 0 {
			idx := -1
			for i, p := range fr.block.Preds {
				if p == fr.prevBlock {
					idx = i
					break
				}
			}
			tmp := make([]value, np)
			for i := 0; i < np; i++ {
				tmp[i] = fr.get(instrs[i].(*ssa.Phi).Edges[idx])
			}
			for i := 0; i < np; i++ {
				fr.env[instrs[i].(*ssa.Phi)] = tmp[i]
			}
		}
		jumped := false
		for _, instr := range instrs[np:] {
			ex.steps++
			if ex.steps > ex.job.MaxSteps {
				panic(budgetExceeded{"step budget"})
			}
			switch ex.visit(fr, instr) {
			case kReturn:
				return
			case kJump:
				jumped = true
			}
			if jumped {
				break
			}
		}
	}
}

func (ex *Exec) zeroResults(fn *ssa.Function) value {
	res := fn.Signature.Results()
	switch res.Len() {
	case 0:
		return nil
	case 1:
		return ex.zero(res.At(0).Type())
	}
	t := make(tuple, res.Len())
	for i := range t {
		t[i] = ex.zero(res.At(i).Type())
	}
	return t
}

func (fr *frame) runDefer(d *deferred) {
	var ok bool
	defer func() {
		if !ok {
			p := recover()
			if _, isT := p.(targetPanic); !isT {
				panic(p)
			}
			fr.panicking = true
			fr.panic = p
		}
	}()
	fr.ex.call(fr, d.fn, d.args, d.instr.Pos())
	ok = true
}

func (fr *frame) runDefers() {
	for d := fr.defers; d != nil; d = d.tail {
		fr.runDefer(d)
	}
	fr.defers = nil
	if fr.panicking {
		panic(fr.panic)
	}
}

func (ex *Exec) runtimePanic(msg string) {
	panic(targetPanic{ex.newErrorValue("runtime error: " + msg)})
}

// newErrorValue builds a real *errors.errorString so that program code can call Error().
func (ex *Exec) newErrorValue(msg string) value {
	ep := ex.prog.ImportedPackage("errors")
	if ep != nil {
		if tn := ep.Type("errorString"); tn != nil {
			c := new(value)
			*c = structure{ex.tc.StrConst(msg)}
			return iface{t: types.NewPointer(tn.Type()), v: c}
		}
	}
	return iface{t: types.Typ[types.String], v: ex.tc.StrConst(msg)}
}

type continuation int

const (
	kNext continuation = iota
	kReturn
	kJump
)

func (ex *Exec) visit(fr *frame, instr ssa.Instruction) continuation {
	switch instr := instr.(type) {
	case *ssa.DebugRef:
	case *ssa.UnOp:
		fr.env[instr] = ex.unop(fr, instr, fr.get(instr.X))
	case *ssa.BinOp:
		fr.env[instr] = ex.binop(instr.Op, instr.X.Type(), fr.get(instr.X), fr.get(instr.Y))
	case *ssa.Call:
		fn, args := ex.prepareCall(fr, &instr.Call)
		fr.env[instr] = ex.call(fr, fn, args, instr.Pos())
	case *ssa.ChangeInterface:
		fr.env[instr] = fr.get(instr.X)
	case *ssa.ChangeType:
		fr.env[instr] = fr.get(instr.X)
	case *ssa.Convert:
		fr.env[instr] = ex.conv(instr.Type(), instr.X.Type(), fr.get(instr.X))
	case *ssa.MakeInterface:
		fr.env[instr] = iface{t: instr.X.Type(), v: fr.get(instr.X)}
	case *ssa.Extract:
		fr.env[instr] = fr.get(instr.Tuple).(tuple)[instr.Index]
	case *ssa.Slice:
		fr.env[instr] = ex.slice(instr, fr.get(instr.X), fr.get(instr.Low), fr.get(instr.High), fr.get(instr.Max))
	case *ssa.Return:
		switch len(instr.Results) {
		case 0:
		case 1:
			fr.result = fr.get(instr.Results[0])
		default:
			var res tuple
			for _, r := range instr.Results {
				res = append(res, fr.get(r))
			}
			fr.result = res
		}
		fr.block = nil
		return kReturn
	case *ssa.RunDefers:
		fr.runDefers()
	case *ssa.Panic:
		panic(targetPanic{fr.get(instr.X)})
	case *ssa.Store:
		ex.store(instr.Val.Type(), fr.get(instr.Addr), fr.get(instr.Val))
	case *ssa.If:
		c := fr.get(instr.Cond).(*Term)
		succ := 1
		if c.IsConst() {
			if c.BoolVal() {
				succ = 0
			}
		} else if merged, ok := ex.tryDiamond(fr, instr, c); ok {
			if merged.join == nil {
				return kReturn
			}
			fr.prevBlock, fr.block = merged.prev, merged.join
			return kJump
		} else if ex.branch(c) {
			succ = 0
		}
		ex.jumpTo(fr, fr.block.Succs[succ])
		return kJump
	case *ssa.Jump:
		ex.jumpTo(fr, fr.block.Succs[0])
		return kJump
	case *ssa.Defer:
		fn, args := ex.prepareCall(fr, &instr.Call)
		fr.defers = &deferred{fn: fn, args: args, instr: instr, tail: fr.defers}
	case *ssa.Go:
		fn, args := ex.prepareCall(fr, &instr.Call)
		pos := instr.Pos()
		ex.spawned = append(ex.spawned, func() { ex.call(nil, fn, args, pos) })
	case *ssa.MakeChan:
		ex.nextID++
		fr.env[instr] = &chanV{ex.nextID}
	case *ssa.Alloc:
		var addr *value
		if instr.Heap {
			addr = new(value)
			fr.env[instr] = addr
		} else {
			addr = fr.env[instr].(*value)
		}
		*addr = ex.zero(instr.Type().(*types.Pointer).Elem())
	case *ssa.MakeSlice:
		cp := ex.smallInt(fr.get(instr.Cap), "make cap")
		ln := ex.smallInt(fr.get(instr.Len), "make len")
		s := make([]value, cp)
		et := instr.Type().Underlying().(*types.Slice).Elem()
		for i := range s {
			s[i] = ex.zero(et)
		}
		fr.env[instr] = s[:ln]
	case *ssa.MakeMap:
		ex.nextID++
		mt := instr.Type().Underlying().(*types.Map)
		fr.env[instr] = &mapV{kt: mt.Key(), id: ex.nextID}
	case *ssa.Range:
		ex.rangeFn = fr.fn.String()
		fr.env[instr] = ex.rangeIter(fr.get(instr.X), instr.X.Type())
	case *ssa.Next:
		fr.env[instr] = ex.iterNext(fr.get(instr.Iter).(*iterV), instr)
	case *ssa.FieldAddr:
		p := fr.get(instr.X).(*value)
		if p == nil {
			ex.runtimePanic("invalid memory address or nil pointer dereference")
		}
		s, ok := (*p).(structure)
		if !ok {
			panic(unsupported{fmt.Sprintf("FieldAddr on %T (%s) in %s", *p, instr.X.Type(), fr.fn)})
		}
		fr.env[instr] = &s[instr.Field]
	case *ssa.Field:
		fr.env[instr] = copyVal(fr.get(instr.X).(structure)[instr.Field])
	case *ssa.IndexAddr:
		fr.env[instr] = ex.indexAddr(fr, instr)
	case *ssa.Index:
		fr.env[instr] = ex.index(fr, instr)
	case *ssa.Lookup:
		fr.env[instr] = ex.lookup(instr, fr.get(instr.X), fr.get(instr.Index))
	case *ssa.MapUpdate:
		ex.mapUpdate(fr.get(instr.Map), fr.get(instr.Key), fr.get(instr.Value))
	case *ssa.TypeAssert:
		fr.env[instr] = ex.typeAssert(instr, fr.get(instr.X).(iface))
	case *ssa.MakeClosure:
		var b []value
		for _, x := range instr.Bindings {
			b = append(b, fr.get(x))
		}
		fr.env[instr] = &closure{instr.Fn.(*ssa.Function), b}
	case *ssa.SliceToArrayPointer:
		panic(unsupported{"SliceToArrayPointer"})
	case *ssa.Select:
		panic(unsupported{"select in " + fr.fn.String()})
	case *ssa.Send:
		panic(unsupported{"channel send in " + fr.fn.String()})
	default:
		panic(unsupported{fmt.Sprintf("instruction %T", instr)})
	}
	return kNext
}

func (ex *Exec) jumpTo(fr *frame, to *ssa.BasicBlock) {
	if to.Index <= fr.block.Index {
		// back edge (approximation by block order; natural loops in go/ssa have
		// headers with smaller index than their latches)
		if fr.backEdges == nil {
			fr.backEdges = map[*ssa.BasicBlock]int{}
		}
		fr.backEdges[to]++
		for h := range fr.backEdges { // a new iteration of an outer loop restarts its inner loops
			if h.Index > to.Index {
				delete(fr.backEdges, h)
			}
		}
		lim := ex.job.Unwind
		if l, ok := ex.job.UnwindFn[fr.fn.String()]; ok {
			lim = l
		}
		if fr.fn.Pkg != nil && !strings.HasPrefix(fr.fn.Pkg.Pkg.Path(), "github.com/vulcand/oxy/v2") && lim < 4096 {
			lim = 4096 // library code (table initialisers, byte loops over concrete data)
		}
		if fr.backEdges[to] > ex.maxUnwind {
			ex.maxUnwind = fr.backEdges[to]
		}
		if fr.backEdges[to] > lim {
			// only a failure if this path is feasible
			if ex.inc.Check() != "unsat" {
				panic(unwindFail{fmt.Sprintf("%s block %d exceeded %d iterations", fr.fn, to.Index, lim)})
			}
			panic(pathKill{"infeasible beyond unwinding"})
		}
	}
	fr.prevBlock, fr.block = fr.block, to
}

func (ex *Exec) concreteInt(v value, what string) int64 {
	t, ok := v.(*Term)
	if !ok {
		panic(unsupported{"non-term " + what})
	}
	if t.IsConst() {
		return signExt(t.u, t.sort.W)
	}
	panic(unsupported{"symbolic " + what})
}

// ---------- diamond if-conversion ----------

type mergedJump struct {
	prev *ssa.BasicBlock
	join *ssa.BasicBlock
}

func pureInstr(i ssa.Instruction) bool {
	switch x := i.(type) {
	case *ssa.BinOp:
		switch x.Op {
		case token.QUO, token.REM, token.SHL, token.SHR:
			return false
		}
		// comparisons of interfaces could call methods? no, plain equality
		return true
	case *ssa.Convert, *ssa.ChangeType, *ssa.DebugRef, *ssa.Extract, *ssa.Field:
		return true
	case *ssa.UnOp:
		return x.Op != token.MUL && x.Op != token.ARROW
	}
	return false
}

// tryDiamond handles   if c {pure} else {pure}; join   and the triangle variants, where
// the side blocks contain only side-effect-free, non-panicking instructions. The join
// block's phis receive ite(c, v_true, v_false).
func (ex *Exec) tryDiamond(fr *frame, ifi *ssa.If, c *Term) (mergedJump, bool) {
	if ex.job.NoDiamond {
		return mergedJump{}, false
	}
	b := fr.block
	tB, fB := b.Succs[0], b.Succs[1]
	side := func(s *ssa.BasicBlock) (*ssa.BasicBlock, bool) { // returns join if s is a pure side block
		if len(s.Preds) != 1 || len(s.Succs) != 1 {
			return nil, false
		}
		for _, in := range s.Instrs[:len(s.Instrs)-1] {
			if !pureInstr(in) {
				return nil, false
			}
		}
		if _, ok := s.Instrs[len(s.Instrs)-1].(*ssa.Jump); !ok {
			return nil, false
		}
		return s.Succs[0], true
	}
	var join *ssa.BasicBlock
	tj, tOK := side(tB)
	fj, fOK := side(fB)
	var tSide, fSide *ssa.BasicBlock
	switch {
	case tOK && fOK && tj == fj:
		join, tSide, fSide = tj, tB, fB
	case tOK && tj == fB:
		join, tSide = fB, tB
	case fOK && fj == tB:
		join, fSide = tB, fB
	default:
		return mergedJump{}, false
	}
	if join.Index <= b.Index {
		return mergedJump{}, false
	}
	// the join must start with phis only needing values (may have none)
	runSide := func(s *ssa.BasicBlock) (ok bool) {
		defer func() {
			if r := recover(); r != nil {
				if _, isU := r.(unsupported); isU {
					ok = false
					return
				}
				if _, isT := r.(targetPanic); isT {
					ok = false
					return
				}
				panic(r)
			}
		}()
		for _, in := range s.Instrs[:len(s.Instrs)-1] {
			ex.visit(fr, in)
		}
		return true
	}
	if tSide != nil && !runSide(tSide) {
		return mergedJump{}, false
	}
	if fSide != nil && !runSide(fSide) {
		return mergedJump{}, false
	}
	tPred, fPred := b, b
	if tSide != nil {
		tPred = tSide
	}
	if fSide != nil {
		fPred = fSide
	}
	ti, fi := -1, -1
	for i, p := range join.Preds {
		if p == tPred && ti < 0 {
			ti = i
		} else if p == fPred {
			fi = i
		}
	}
	if tPred == fPred {
		// both edges from b to join (degenerate)
		return mergedJump{}, false
	}
	if ti < 0 || fi < 0 {
		return mergedJump{}, false
	}
	// compute merged phi values; if any merge fails, give up (fork instead)
	var phis []*ssa.Phi
	for _, in := range join.Instrs {
		if p, ok := in.(*ssa.Phi); ok {
			phis = append(phis, p)
		} else {
			break
		}
	}
	vals := make([]value, len(phis))
	okMerge := func() (ok bool) {
		defer func() {
			if r := recover(); r != nil {
				if _, isM := r.(mergeFail); isM {
					ok = false
					return
				}
				panic(r)
			}
		}()
		for i, p := range phis {
			vals[i] = ex.iteVal(c, fr.get(p.Edges[ti]), fr.get(p.Edges[fi]))
		}
		return true
	}()
	if !okMerge {
		return mergedJump{}, false
	}
	// Install: we emulate arriving from a synthetic predecessor by pre-setting phi values
	// and skipping phi evaluation: set prevBlock to tPred and temporarily override the
	// edge values through the env of a pseudo-value. Simplest: write phi results and
	// execute the non-phi part of join directly here.
	for i, p := range phis {
		fr.env[p] = vals[i]
	}
	fr.prevBlock = tPred
	fr.block = join
	// run the rest of join now (skipping phis) by executing instructions inline
	for _, in := range join.Instrs[len(phis):] {
		ex.steps++
		switch ex.visit(fr, in) {
		case kReturn:
			return mergedJump{prev: nil, join: nil}, true
		case kJump:
			return mergedJump{prev: fr.prevBlock, join: fr.block}, true
		}
	}
	panic("join block without terminator")
}

// ---------- helpers for sorting map keys deterministically ----------

func sortedParamNames(m map[string]int64) []string {
	var ks []string
	for k := range m {
		ks = append(ks, k)
	}
	sort.Strings(ks)
	return ks
}

// restartInc replaces a crashed incremental solver by a fresh process and re-establishes
// the assertion stack of the current path prefix.
func (ex *Exec) restartInc() bool {
	if ex.journalOn || ex.restarts > 5000 {
		return false
	}
	ex.restarts++
	ex.inc.Close()
	ex.inc = NewIncSolver(ex.inc.name, ex.inc.tmoMs)
	push := map[int]bool{}
	for _, ch := range ex.trace {
		if !ch.forced {
			push[ch.pcIndex] = true
		}
	}
	for i, c := range ex.pathCond[:ex.pcPos] {
		if push[i] {
			ex.inc.Push()
		}
		ex.inc.Assert(c)
	}
	// fix up recorded levels (they are positions in the same push sequence, so unchanged)
	return !ex.inc.dead
}

// noteTrue records a condition (and its conjuncts) as holding on this path.
func (ex *Exec) noteTrue(c *Term) {
	if c.IsConst() {
		return
	}
	ex.known[c.id] = true
	switch c.op {
	case "not":
		ex.known[c.args[0].id] = false
	case "and":
		for _, a := range c.args {
			ex.noteTrue(a)
		}
	}
}
