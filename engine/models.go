package main

import (
	"fmt"
	"go/token"
	"go/types"
	"math/big"
	"net/http"
	"net/textproto"
	"net"
	"net/url"
	"sort"
	"strconv"
	"strings"
	"time"

	"golang.org/x/tools/go/ssa"
)

type modelFn func(ex *Exec, caller *frame, fn *ssa.Function, args []value) value

var models map[string]modelFn

const clockPkg = "github.com/vulcand/oxy/v2/internal/holsterv4/clock"

// seconds between year 1 and 1970
const unixToInternal int64 = 62135596800

func (ex *Exec) noteInput(v *Term) {
	if !ex.inputSeen[v.s] {
		ex.inputSeen[v.s] = true
		ex.inputs = append(ex.inputs, v)
	}
}

func (ex *Exec) constStr(v value, what string) string {
	t, ok := v.(*Term)
	if !ok || !t.IsConst() || t.sort.K != SStr {
		panic(unsupported{"non-constant string for " + what})
	}
	return t.s
}

func (ex *Exec) input(name string, s Sort) *Term {
	v := ex.tc.Var(sanitize(name), s)
	ex.noteInput(v)
	return v
}

func sanitize(n string) string {
	var sb strings.Builder
	for _, r := range n {
		if (r >= 'a' && r <= 'z') || (r >= 'A' && r <= 'Z') || (r >= '0' && r <= '9') || r == '_' || r == '.' || r == '!' {
			sb.WriteRune(r)
		} else {
			sb.WriteByte('_')
		}
	}
	return sb.String()
}

// ---------- intrinsics ----------

func (ex *Exec) intrinsic(caller *frame, fn *ssa.Function, args []value, pos token.Pos) (value, bool) {
	tc := ex.tc
	switch fn.Name() {
	case "verifInt64", "verifInt", "verifDur":
		return ex.input(ex.constStr(args[0], "input name"), BV(64)), true
	case "verifBool":
		return ex.input(ex.constStr(args[0], "input name"), BoolSort), true
	case "verifF64":
		return ex.input(ex.constStr(args[0], "input name"), FPSort), true
	case "verifStr":
		v := ex.input(ex.constStr(args[0], "input name"), StrSort)
		ex.addCond(tc.StrIsBytes(v))
		return v, true
	case "verifAssume":
		c := args[0].(*Term)
		if c.IsConst() && !c.BoolVal() {
			panic(pathKill{"assumption false"})
		}
		ex.addCond(c)
		return nil, true
	case "verifAssert":
		c := args[1].(*Term)
		ex.assert(ex.constStr(args[0], "assert label"), c, ex.pos(pos))
		if c.IsConst() && !c.BoolVal() {
			panic(pathDone{})
		}
		return nil, true
	case "verifReach":
		lbl := ex.constStr(args[0], "reach label")
		if !ex.reachedAny[lbl] && !ex.noSolver {
			r, model := ex.inc.CheckWithModel(ex.tc.True(), ex.inputs)
			if r != "unsat" {
				ex.reachedAny[lbl] = true
				if lbl == "end" && model != nil && ex.witness == nil {
					ex.witness = model // a concrete input valuation that drives the harness to its end
				}
			}
		}
		return nil, true
	case "verifIteI64", "verifIteInt", "verifIteF64", "verifIteBool", "verifIteStr", "verifIteDur":
		return ex.iteVal(args[0].(*Term), args[1], args[2]), true
	case "verifAnd":
		return tc.And(args[0].(*Term), args[1].(*Term)), true
	case "verifOr":
		return tc.Or(args[0].(*Term), args[1].(*Term)), true
	case "verifImp":
		return tc.Implies(args[0].(*Term), args[1].(*Term)), true
	case "verifB2I":
		return tc.Ite(args[0].(*Term), tc.Int64(1), tc.Int64(0)), true
	case "verifParam":
		n := ex.constStr(args[0], "param name")
		v, ok := ex.params[n]
		if !ok {
			panic(unsupported{"missing job parameter " + n})
		}
		return tc.Int64(v), true
	case "verifName":
		return tc.StrConst(ex.constStr(args[0], "name prefix") + strconv.FormatInt(ex.concreteInt(args[1], "name index"), 10)), true
	case "verifConcretize":
		x := args[0].(*Term)
		if x.IsConst() {
			return x, true
		}
		lo, hi := ex.concreteInt(args[1], "concretize lo"), ex.concreteInt(args[2], "concretize hi")
		conds := make([]*Term, 0, hi-lo+2)
		for v := lo; v <= hi; v++ {
			conds = append(conds, tc.Eq(x, tc.Int64(v)))
		}
		conds = append(conds, tc.Or(tc.SLt(x, tc.Int64(lo)), tc.SGt(x, tc.Int64(hi))))
		k := ex.choose(conds)
		if int64(k) > hi-lo {
			panic(pathKill{"verifConcretize: outside the stated range (implicit assumption)"})
		}
		return tc.Int64(lo + int64(k)), true
	case "verifStub":
		name := ex.constStr(args[0], "stub name")
		var f value = args[1]
		if itf, ok := f.(iface); ok {
			f = itf.v
		}
		ex.stubs[name] = f
		return nil, true
	case "stringsContains":
		return tc.StrContains(args[0].(*Term), args[1].(*Term)), true
	case "stringsHasPrefix":
		return tc.StrPrefixOf(args[1].(*Term), args[0].(*Term)), true
	case "verifRacePair":
		ex.racePair(caller, ex.constStr(args[0], "pair name"), args[1], args[2], pos)
		return nil, true
	case "verifOnLockEvent":
		f := args[0]
		if itf, ok := f.(iface); ok {
			f = itf.v
		}
		ex.lockHook = f
		return nil, true
	case "verifYield":
		// an explicit scheduling point inside harness code run by the first thread
		if il := ex.interleave; il != nil && !il.inB && !il.done {
			il.y++
			v := ex.input(fmt.Sprintf("yield.%s.%d", il.label, il.y), BoolSort)
			if ex.branch(v) {
				il.done, il.inB = true, true
				f := il.b
				if itf, ok := f.(iface); ok {
					f = itf.v
				}
				ex.call(il.c, f, nil, token.NoPos)
				il.inB = false
			}
		}
		return nil, true
	case "verifInterleave":
		ex.runInterleaved(caller, ex.constStr(args[0], "interleave label"), args[1], args[2])
		return nil, true
	case "verifStop":
		panic(pathDone{})
	case "verifObserve":
		ex.observed = append(ex.observed, obsRec{ex.constStr(args[0], "observe name"), args[1]})
		return nil, true
	case "verifRunSpawned":
		n := len(ex.spawned)
		sp := ex.spawned
		ex.spawned = nil
		for _, f := range sp {
			f()
		}
		return tc.Int64(int64(n)), true
	case "verifSpawnedCount":
		return tc.Int64(int64(len(ex.spawned))), true
	case "verifTime":
		return ex.symbolicTime(ex.constStr(args[0], "time name")), true
	case "verifClockInit":
		ex.clock = ex.symbolicTime(ex.constStr(args[0], "time name"))
		ex.clockSet = true
		return ex.clock, true
	case "verifAdvance":
		return ex.symbolicAdvance(ex.constStr(args[0], "advance name"), ex.concreteInt(args[1], "max grid steps")), true
	case "verifGrid":
		return tc.Int64(ex.grid), true
	case "verifLockHeld":
		// 0 = not held, 1 = read-locked, 2 = write-locked
		var p *value
		switch a := args[0].(type) {
		case *value:
			p = a
		case iface:
			p, _ = a.v.(*value)
		}
		ls := ex.locks[p]
		switch {
		case ls == nil:
			return tc.Int64(0), true
		case ls.writer:
			return tc.Int64(2), true
		case ls.readers > 0:
			return tc.Int64(1), true
		}
		return tc.Int64(0), true
	case "verifLocksHeld":
		n := 0
		for _, ls := range ex.locks {
			if ls.writer || ls.readers > 0 {
				n++
			}
		}
		return tc.Int64(int64(n)), true
	case "verifKnown":
		id := ex.constStr(args[0], "known id")
		ex.ghost["known:"+id] = args[1]
		return nil, true
	case "verifSymbolic":
		return tc.True(), true
	case "verifShared":
		ex.markShared(args)
		return nil, true
	case "verifAccessLogStart":
		ex.logAccess = true
		ex.accessLog = nil
		return nil, true
	case "verifAccessLogStop":
		ex.logAccess = false
		return nil, true
	case "verifFilesLeft":
		return tc.Int64(int64(ex.files.existing())), true
	case "verifFilesOpen":
		return tc.Int64(int64(ex.files.open())), true
	case "verifFilesCreated":
		return tc.Int64(int64(ex.files.created)), true
	}
	return nil, false
}

func (ex *Exec) symbolicTime(name string) timeV {
	tc := ex.tc
	q := ex.input(name+".q", BV(timeW))
	var rem *Term
	if ex.grid == 1 {
		rem = tc.BVConst(64, 0)
	} else {
		rem = ex.input(name+".rem", BV(64))
		ex.addCond(tc.ULt(rem, tc.BVConst(64, uint64(ex.grid))))
	}
	// between 2001-01-01 and 2100-01-01 (seconds since year 1: 63113904000 .. 66238041600)
	lo := new(big.Int).Mul(big.NewInt(63113904000), big.NewInt(1e9))
	hi := new(big.Int).Mul(big.NewInt(66238041600), big.NewInt(1e9))
	g := big.NewInt(ex.grid)
	lo.Div(lo, g)
	hi.Div(hi, g)
	if span, ok := ex.params["t0span"]; ok {
		// start instant restricted to a window of `span` grid steps after 2001-01-01
		hi = new(big.Int).Add(lo, big.NewInt(span))
	}
	ex.addCond(tc.BVCmp("bvuge", q, ex.bigConst(lo)))
	ex.addCond(tc.BVCmp("bvule", q, ex.bigConst(hi)))
	return timeV{q, rem}
}

// bigConst builds an 80-bit constant from a big.Int (non-negative)
func (ex *Exec) bigConst(b *big.Int) *Term {
	return ex.tc.BVBig(timeW, b)
}

func (ex *Exec) ext80(t *Term) *Term { return ex.tc.SignExt(t, timeW) }

// symbolicAdvance advances the frozen clock by dq*G+dr with fresh dq in [0,maxSteps], dr in [0,G).
func (ex *Exec) symbolicAdvance(name string, maxSteps int64) value {
	tc := ex.tc
	if !ex.clockSet {
		panic(unsupported{"verifAdvance before verifClockInit"})
	}
	dq := ex.input(name+".dq", BV(64))
	ex.addCond(tc.SGe(dq, tc.Int64(0)))
	ex.addCond(tc.SLe(dq, tc.Int64(maxSteps)))
	var dr *Term
	if ex.grid == 1 {
		dr = tc.Int64(0)
	} else {
		dr = ex.input(name+".dr", BV(64))
		ex.addCond(tc.ULt(dr, tc.BVConst(64, uint64(ex.grid))))
	}
	ex.clock = ex.timeAddParts(ex.clock, dq, dr)
	return tc.Add(tc.Mul(dq, tc.Int64(ex.grid)), dr)
}

// timeAddParts: t + (dq*G + dr) with 0 <= dr < G, dq any signed 64-bit
func (ex *Exec) timeAddParts(t timeV, dq, dr *Term) timeV {
	tc := ex.tc
	if ex.grid == 1 {
		return timeV{tc.Add(t.q, ex.ext80(dq)), t.rem}
	}
	G := tc.BVConst(64, uint64(ex.grid))
	sum := tc.Add(t.rem, dr)
	carry := tc.BVCmp("bvuge", sum, G)
	rem := tc.Ite(carry, tc.Sub(sum, G), sum)
	q := tc.Add(tc.Add(t.q, ex.ext80(dq)), tc.Ite(carry, tc.BVConst(timeW, 1), tc.BVConst(timeW, 0)))
	return timeV{q, rem}
}

// decompose a duration on the grid: d = dq*G + dr, 0 <= dr < G (floor semantics)
func (ex *Exec) decompose(d *Term) (*Term, *Term) {
	tc := ex.tc
	if ex.grid == 1 {
		return d, tc.Int64(0)
	}
	G := ex.grid
	if d.IsConst() {
		v := signExt(d.u, 64)
		q := v / G
		r := v % G
		if r < 0 {
			r += G
			q--
		}
		return tc.Int64(q), tc.Int64(r)
	}
	// recognise dq*G + dr produced by verifAdvance
	if d.op == "bvadd" && len(d.args) == 2 {
		a, b := d.args[0], d.args[1]
		if a.op == "bvmul" && len(a.args) == 2 && a.args[1].IsConst() && signExt(a.args[1].u, 64) == G {
			return a.args[0], b
		}
	}
	if d.op == "bvmul" && len(d.args) == 2 && d.args[1].IsConst() && signExt(d.args[1].u, 64) == G {
		return d.args[0], tc.Int64(0)
	}
	if d.op == "bvmul" && len(d.args) == 2 && d.args[0].IsConst() && signExt(d.args[0].u, 64) == G {
		return d.args[1], tc.Int64(0)
	}
	// multiples: k*G*x
	gT := tc.Int64(G)
	q := tc.SDiv(d, gT)
	r := tc.SRem(d, gT)
	neg := tc.SLt(r, tc.Int64(0))
	return tc.Ite(neg, tc.Sub(q, tc.Int64(1)), q), tc.Ite(neg, tc.Add(r, gT), r)
}

func (ex *Exec) timeAdd(t timeV, d *Term) timeV {
	dq, dr := ex.decompose(d)
	return ex.timeAddParts(t, dq, dr)
}

func (ex *Exec) timeBefore(a, b timeV) *Term {
	tc := ex.tc
	if ex.grid == 1 {
		return tc.ULt(a.q, b.q)
	}
	return tc.Or(tc.ULt(a.q, b.q), tc.And(tc.Eq(a.q, b.q), tc.ULt(a.rem, b.rem)))
}

func (ex *Exec) timeSub(a, b timeV) *Term {
	tc := ex.tc
	dq := tc.Sub(a.q, b.q)
	var diff *Term
	if ex.grid == 1 {
		diff = dq
	} else {
		diff = tc.Add(tc.Mul(dq, tc.BVConst(timeW, uint64(ex.grid))), ex.ext80(tc.Sub(a.rem, b.rem)))
	}
	if r, ok := ex.to64(diff); ok && !ex.job.NoNarrow {
		return r
	}
	maxI := tc.BVConst(timeW, uint64(1<<63-1))
	minI := tc.SignExt(tc.BVConst(64, 1<<63), timeW)
	lo := tc.Extract(diff, 63, 0)
	return tc.Ite(tc.SGt(diff, maxI), tc.BVConst(64, 1<<63-1), tc.Ite(tc.SLt(diff, minI), tc.BVConst(64, 1<<63), lo))
}

func (ex *Exec) timeTotalNs(t timeV) *Term {
	tc := ex.tc
	if ex.grid == 1 {
		return t.q
	}
	return tc.Add(tc.Mul(t.q, tc.BVConst(timeW, uint64(ex.grid))), tc.ZeroExt(t.rem, timeW))
}

func (ex *Exec) timeUnix(t timeV) *Term {
	tc := ex.tc
	G := ex.grid
	var sec80 *Term
	if G%1e9 == 0 {
		k := G / 1e9
		sec80 = tc.Mul(t.q, tc.BVConst(timeW, uint64(k)))
		// + floor(rem/1e9): rem < G = k*1e9
		for i := int64(1); i < k; i++ {
			sec80 = tc.Add(sec80, tc.Ite(tc.BVCmp("bvuge", t.rem, tc.BVConst(64, uint64(i*1e9))), tc.BVConst(timeW, 1), tc.BVConst(timeW, 0)))
		}
	} else {
		sec80 = tc.UDiv(ex.timeTotalNs(t), tc.BVConst(timeW, 1e9))
	}
	u := tc.Sub(tc.Extract(sec80, 63, 0), tc.Int64(unixToInternal))
	// instants handled by the harnesses lie between 1970 and year ~36000 (listed assumption)
	ex.addCond(tc.And(tc.SGe(u, tc.Int64(0)), tc.SLe(u, tc.Int64(1<<40))))
	return u
}

func (ex *Exec) timeUnixNano(t timeV) *Term {
	tc := ex.tc
	off := new(big.Int).Mul(big.NewInt(unixToInternal), big.NewInt(1e9))
	r := tc.Extract(tc.Sub(ex.timeTotalNs(t), ex.bigConst(off)), 63, 0)
	// UnixNano is only defined by Go for instants whose nanosecond count fits in int64
	// (years 1678..2262); harness instants are within that range (listed assumption)
	ex.addCond(tc.And(tc.SGe(r, tc.Int64(0)), tc.SLe(r, tc.Int64(1<<62))))
	if !r.IsConst() {
		if ex.linForms == nil {
			ex.linForms = map[int]linForm{}
		}
		ex.linForms[r.id] = linForm{q: t.q, rem: t.rem, g: ex.grid, off: off}
	}
	return r
}

// linForm records that a 64-bit term equals q*g + rem - off (no overflow, value >= 0),
// q an 80-bit term, 0 <= rem < g.
type linForm struct {
	q   *Term
	rem *Term
	g   int64
	off *big.Int
}

// divLinForm: (q*g + rem - off) / g  with off = o1*g + o2:
//   = (q - o1) + floor((rem - o2)/g) = q - o1 - [rem < o2]      (0 <= rem, o2 < g)
func (ex *Exec) divLinForm(a *Term, d int64) *Term {
	lf, ok := ex.linForms[a.id]
	if !ok || d <= 0 || lf.g != d {
		return nil
	}
	o1, o2 := new(big.Int).QuoRem(lf.off, big.NewInt(d), new(big.Int))
	tc := ex.tc
	q := tc.Sub(lf.q, ex.bigConst(o1))
	if o2.Sign() != 0 {
		borrow := tc.ULt(lf.rem, tc.BVConst(64, o2.Uint64()))
		q = tc.Sub(q, tc.Ite(borrow, tc.BVConst(timeW, 1), tc.BVConst(timeW, 0)))
	}
	r := tc.Extract(q, 63, 0)
	ex.addCond(tc.And(tc.SGe(r, tc.Int64(0)), tc.SLe(r, tc.Int64(1<<62))))
	return r
}

func (ex *Exec) timeTruncate(t timeV, d *Term) timeV {
	tc := ex.tc
	if !d.IsConst() {
		panic(unsupported{"Truncate by symbolic duration"})
	}
	dv := signExt(d.u, 64)
	if dv <= 0 {
		return t
	}
	G := ex.grid
	if dv == G {
		return timeV{t.q, tc.BVConst(64, 0)}
	}
	if dv%G == 0 {
		m := tc.BVConst(timeW, uint64(dv/G))
		return timeV{tc.Sub(t.q, tc.URem(t.q, m)), tc.BVConst(64, 0)}
	}
	if G%dv == 0 {
		// finer truncation than the grid: rem - rem % dv
		return timeV{t.q, tc.Sub(t.rem, tc.URem(t.rem, tc.BVConst(64, uint64(dv))))}
	}
	panic(unsupported{fmt.Sprintf("Truncate(%d) on grid %d", dv, G)})
}

func (ex *Exec) now() timeV {
	if !ex.clockSet {
		panic(unsupported{"clock.Now before the harness initialised the clock (verifClockInit / clock.Freeze)"})
	}
	return ex.clock
}

// ---------- lock table ----------

func (ex *Exec) lockOp(p *value, op string) {
	if p == nil {
		ex.runtimePanic("nil mutex")
	}
	ex.noteLockOp(p, op)
	ls := ex.locks[p]
	if ls == nil {
		ls = &lockState{}
		ex.locks[p] = ls
		ex.lockOrder = append(ex.lockOrder, p)
	}
	// two-thread sequentialisation (verifInterleave): lock acquisitions and releases of the
	// first thread are the scheduling points at which the second thread may run to completion
	if il := ex.interleave; il != nil {
		if il.inB {
			// the second thread needs a lock the suspended first thread holds: this schedule
			// is not possible (it would block until the first thread resumes)
			if (op == "Lock" && (ls.writer || ls.readers > 0)) || (op == "RLock" && ls.writer) {
				panic(pathKill{"interleaving infeasible: second thread blocks on a lock held by the first"})
			}
		} else if !il.done && (op == "Lock" || op == "RLock") {
			ex.maybePreempt()
		}
	}
	defer func() {
		if h := ex.lockHook; h != nil && !ex.inLockHook {
			// observation hook of the harness (ghost bookkeeping at every lock boundary)
			ex.inLockHook = true
			ex.call(nil, h, nil, token.NoPos)
			ex.inLockHook = false
		}
		if il := ex.interleave; il != nil && !il.inB && !il.done && (op == "Unlock" || op == "RUnlock") {
			ex.maybePreempt()
		}
	}()
	switch op {
	case "Lock":
		if ls.writer || ls.readers > 0 {
			ex.assert("lock-discipline:no-self-deadlock", ex.tc.False(), "Lock of a mutex already held")
			panic(pathDone{})
		}
		ls.writer = true
	case "Unlock":
		if !ls.writer {
			ex.assert("lock-discipline:unlock-of-unlocked", ex.tc.False(), "Unlock of a mutex not held")
			panic(targetPanic{ex.newErrorValue("sync: unlock of unlocked mutex")})
		}
		ls.writer = false
	case "RLock":
		if ls.writer {
			ex.assert("lock-discipline:no-self-deadlock", ex.tc.False(), "RLock while write-locked")
			panic(pathDone{})
		}
		ls.readers++
	case "RUnlock":
		if ls.readers == 0 {
			ex.assert("lock-discipline:unlock-of-unlocked", ex.tc.False(), "RUnlock of a mutex not read-locked")
			panic(targetPanic{ex.newErrorValue("sync: RUnlock of unlocked RWMutex")})
		}
		ls.readers--
	}
}

func (ex *Exec) locksHeldDesc() string {
	var parts []string
	for i, p := range ex.lockOrder {
		ls := ex.locks[p]
		if ls.writer {
			parts = append(parts, fmt.Sprintf("L%d:W", i))
		} else if ls.readers > 0 {
			parts = append(parts, fmt.Sprintf("L%d:R", i))
		}
	}
	return strings.Join(parts, ",")
}

// ---------- access log (C09) ----------

func (ex *Exec) noteAccess(p *value, write bool) {
	if !ex.logAccess || ex.sharedSet == nil || !ex.sharedSet[p] {
		return
	}
	ex.accessLog = append(ex.accessLog, accessRec{cell: p, write: write, locks: ex.locksHeldDesc()})
}

func (ex *Exec) noteMapAccess(m *mapV, write bool) {
	if !ex.logAccess || ex.sharedMaps == nil || !ex.sharedMaps[m] {
		return
	}
	ex.mapLog = append(ex.mapLog, mapAccessRec{m: m, write: write, locks: ex.locksHeldDesc()})
}

func (ex *Exec) noteLockOp(p *value, op string) {}

func (ex *Exec) markShared(roots []value) {
	if ex.sharedSet == nil {
		ex.sharedSet = map[*value]bool{}
		ex.sharedMaps = map[*mapV]bool{}
		ex.cellNames = map[*value]string{}
	}
	if len(ex.sharedRoots) == 0 {
		ex.sharedRoots = append(ex.sharedRoots, roots...)
	}
	// (re)walk from scratch: maps may have gained entries
	ex.sharedMaps = map[*mapV]bool{}
	visited := map[*value]bool{}
	var walk func(v value)
	var walkCell func(p *value)
	walkCell = func(p *value) {
		if p == nil || visited[p] {
			return
		}
		visited[p] = true
		if !ex.sharedSet[p] {
			ex.sharedSet[p] = true
			ex.sharedOrder = append(ex.sharedOrder, p)
		}
		walk(*p)
	}
	walk = func(v value) {
		switch x := v.(type) {
		case *value:
			walkCell(x)
		case structure:
			for i := range x {
				walkCell(&x[i])
			}
		case array:
			for i := range x {
				walkCell(&x[i])
			}
		case []value:
			full := x[:cap(x)]
			for i := range full {
				walkCell(&full[i])
			}
		case *mapV:
			if x != nil && !ex.sharedMaps[x] {
				ex.sharedMaps[x] = true
				for i := range x.vals {
					walk(x.vals[i])
					walk(x.keys[i])
				}
			}
		case iface:
			walk(x.v)
		case *closure:
			if x != nil {
				for _, e := range x.env {
					walk(e)
				}
			}
		}
	}
	for _, r := range roots {
		walk(r)
	}
}

// ---------- ghost file table (multibuf spill files) ----------

type fileState struct {
	name   string
	data   []value // bytes (8-bit terms)
	pos    int
	open   bool
	exists bool
}

type fileTable struct {
	created int
	files   map[*value]*fileState
	order   []*value
}

func newFileTable() *fileTable { return &fileTable{files: map[*value]*fileState{}} }
func (f *fileTable) existing() int {
	n := 0
	for _, p := range f.order {
		if f.files[p].exists {
			n++
		}
	}
	return n
}
func (f *fileTable) open() int {
	n := 0
	for _, p := range f.order {
		if f.files[p].open {
			n++
		}
	}
	return n
}

func (ex *Exec) fileOf(v value) *fileState {
	p, ok := v.(*value)
	if !ok || p == nil {
		ex.runtimePanic("nil *os.File")
	}
	fs := ex.files.files[p]
	if fs == nil {
		panic(unsupported{"operation on an *os.File not created by the modelled TempFile"})
	}
	return fs
}

func (ex *Exec) osErr(msg string) value { return ex.newErrorValue(msg) }

func (ex *Exec) eofValue() value {
	if ip := ex.prog.ImportedPackage("io"); ip != nil {
		if g, ok := ip.Members["EOF"].(*ssa.Global); ok {
			return *ex.globalAddr(g)
		}
	}
	return ex.newErrorValue("EOF")
}

// callMethod invokes a method by name on an interface value.
func (ex *Exec) callMethod(c *frame, recv iface, name string, args ...value) value {
	if recv.t == nil {
		ex.runtimePanic("method call on nil interface")
	}
	f := ex.lookupMethod(recv.t, nil, name)
	if f == nil {
		panic(unsupported{"no method " + name + " on " + recv.t.String()})
	}
	return ex.call(c, f, append([]value{recv.v}, args...), token.NoPos)
}

// ---------- std models ----------

func init() {
	models = map[string]modelFn{}
	m := models
	// --- sync ---
	for _, op := range []string{"Lock", "Unlock"} {
		op := op
		m["(*sync.Mutex)."+op] = func(ex *Exec, c *frame, fn *ssa.Function, a []value) value {
			ex.lockOp(a[0].(*value), op)
			return nil
		}
	}
	for _, op := range []string{"Lock", "Unlock", "RLock", "RUnlock"} {
		op := op
		m["(*sync.RWMutex)."+op] = func(ex *Exec, c *frame, fn *ssa.Function, a []value) value {
			ex.lockOp(a[0].(*value), op)
			return nil
		}
	}
	m["(*sync.Once).Do"] = func(ex *Exec, c *frame, fn *ssa.Function, a []value) value {
		p := a[0].(*value)
		if !ex.onces[p] {
			ex.onces[p] = true
			ex.call(c, a[1], nil, token.NoPos)
		}
		return nil
	}
	// --- holster clock ---
	m[clockPkg+".Now"] = func(ex *Exec, c *frame, fn *ssa.Function, a []value) value { return ex.now() }
	m[clockPkg+".Freeze"] = func(ex *Exec, c *frame, fn *ssa.Function, a []value) value {
		ex.clock = a[0].(timeV)
		ex.clockSet = true
		return structure{}
	}
	m[clockPkg+".Advance"] = func(ex *Exec, c *frame, fn *ssa.Function, a []value) value {
		ex.clock = ex.timeAdd(ex.now(), a[0].(*Term))
		return ex.tc.Int64(0)
	}
	m[clockPkg+".Unfreeze"] = func(ex *Exec, c *frame, fn *ssa.Function, a []value) value { return nil }
	m["("+clockPkg+".Unfreezer).Unfreeze"] = func(ex *Exec, c *frame, fn *ssa.Function, a []value) value { return nil }
	m[clockPkg+".Since"] = func(ex *Exec, c *frame, fn *ssa.Function, a []value) value {
		return ex.timeSub(ex.now(), a[0].(timeV))
	}
	m[clockPkg+".Until"] = func(ex *Exec, c *frame, fn *ssa.Function, a []value) value {
		return ex.timeSub(a[0].(timeV), ex.now())
	}
	// --- time ---
	m["time.Now"] = func(ex *Exec, c *frame, fn *ssa.Function, a []value) value { return ex.now() }
	m["time.Since"] = m[clockPkg+".Since"]
	m["time.Until"] = m[clockPkg+".Until"]
	m["(time.Time).Add"] = func(ex *Exec, c *frame, fn *ssa.Function, a []value) value {
		return ex.timeAdd(a[0].(timeV), a[1].(*Term))
	}
	m["(time.Time).Sub"] = func(ex *Exec, c *frame, fn *ssa.Function, a []value) value {
		return ex.timeSub(a[0].(timeV), a[1].(timeV))
	}
	m["(time.Time).Before"] = func(ex *Exec, c *frame, fn *ssa.Function, a []value) value {
		return ex.timeBefore(a[0].(timeV), a[1].(timeV))
	}
	m["(time.Time).After"] = func(ex *Exec, c *frame, fn *ssa.Function, a []value) value {
		return ex.timeBefore(a[1].(timeV), a[0].(timeV))
	}
	m["(time.Time).Equal"] = func(ex *Exec, c *frame, fn *ssa.Function, a []value) value {
		x, y := a[0].(timeV), a[1].(timeV)
		return ex.tc.And(ex.tc.Eq(x.q, y.q), ex.tc.Eq(x.rem, y.rem))
	}
	m["(time.Time).Compare"] = func(ex *Exec, c *frame, fn *ssa.Function, a []value) value {
		x, y := a[0].(timeV), a[1].(timeV)
		tc := ex.tc
		return tc.Ite(ex.timeBefore(x, y), tc.Int64(-1), tc.Ite(ex.timeBefore(y, x), tc.Int64(1), tc.Int64(0)))
	}
	m["(time.Time).IsZero"] = func(ex *Exec, c *frame, fn *ssa.Function, a []value) value {
		x := a[0].(timeV)
		return ex.tc.And(ex.tc.Eq(x.q, ex.tc.BVConst(timeW, 0)), ex.tc.Eq(x.rem, ex.tc.BVConst(64, 0)))
	}
	ident := func(ex *Exec, c *frame, fn *ssa.Function, a []value) value { return a[0] }
	m["(time.Time).UTC"] = ident
	m["(time.Time).Local"] = ident
	m["(time.Time).Round"] = func(ex *Exec, c *frame, fn *ssa.Function, a []value) value {
		if d := a[1].(*Term); d.IsConst() && signExt(d.u, 64) <= 0 {
			return a[0]
		}
		panic(unsupported{"time.Round"})
	}
	m["(time.Time).Unix"] = func(ex *Exec, c *frame, fn *ssa.Function, a []value) value {
		return ex.timeUnix(a[0].(timeV))
	}
	m["(time.Time).UnixNano"] = func(ex *Exec, c *frame, fn *ssa.Function, a []value) value {
		return ex.timeUnixNano(a[0].(timeV))
	}
	m["(time.Time).Truncate"] = func(ex *Exec, c *frame, fn *ssa.Function, a []value) value {
		return ex.timeTruncate(a[0].(timeV), a[1].(*Term))
	}
	m["time.Unix"] = func(ex *Exec, c *frame, fn *ssa.Function, a []value) value {
		sec, nsec := a[0].(*Term), a[1].(*Term)
		tc := ex.tc
		if !nsec.IsConst() || nsec.u != 0 {
			panic(unsupported{"time.Unix with nsec != 0"})
		}
		abs := tc.Add(ex.ext80(sec), tc.BVConst(timeW, uint64(unixToInternal)))
		G := ex.grid
		if G%1e9 == 0 {
			k := tc.BVConst(timeW, uint64(G/1e9))
			q := tc.UDiv(abs, k)
			r := tc.URem(abs, k)
			return timeV{q, tc.Mul(tc.Extract(r, 63, 0), tc.Int64(1e9))}
		}
		if G == 1 {
			return timeV{tc.Mul(abs, tc.BVConst(timeW, 1e9)), tc.Int64(0)}
		}
		panic(unsupported{"time.Unix on this grid"})
	}
	m["(time.Duration).String"] = func(ex *Exec, c *frame, fn *ssa.Function, a []value) value {
		d := a[0].(*Term)
		if d.IsConst() {
			return ex.tc.StrConst(time.Duration(signExt(d.u, 64)).String())
		}
		// every Duration string ends in "s" ("0s", "1.5s", "2m0s")
		return ex.tc.StrConcat(ex.tc.UF("durationString", StrSort, d), ex.tc.StrConst("s"))
	}
	m["(time.Time).String"] = func(ex *Exec, c *frame, fn *ssa.Function, a []value) value {
		return ex.tc.StrConst("<time>")
	}
	m["(time.Time).Format"] = func(ex *Exec, c *frame, fn *ssa.Function, a []value) value {
		return ex.tc.StrConst("<time>")
	}
	// --- fmt / errors / log ---
	m["fmt.Errorf"] = func(ex *Exec, c *frame, fn *ssa.Function, a []value) value {
		msg := "fmt.Errorf"
		if t, ok := a[0].(*Term); ok && t.IsConst() {
			msg = t.s
		}
		// keep %w chain: use fmt.wrapError if an error argument exists and %w present
		var wrapped value
		if strings.Contains(msg, "%w") {
			for _, arg := range a[1].([]value) {
				if itf, ok := arg.(iface); ok && itf.t != nil && implementsError(ex.prog, itf.t) {
					wrapped = itf
				}
			}
		}
		if wrapped != nil {
			if fp := ex.prog.ImportedPackage("fmt"); fp != nil {
				if tn := fp.Type("wrapError"); tn != nil {
					cell := new(value)
					*cell = structure{ex.tc.StrConst(msg), wrapped}
					return iface{t: types.NewPointer(tn.Type()), v: cell}
				}
			}
		}
		return ex.newErrorValue(msg)
	}
	sprintf := func(ex *Exec, c *frame, fn *ssa.Function, a []value) value {
		// concrete arguments: evaluate natively; otherwise an opaque string
		if t, ok := a[0].(*Term); ok && t.IsConst() {
			var goArgs []interface{}
			okAll := true
			for _, arg := range a[1].([]value) {
				g, ok := ex.toGo(arg)
				if !ok {
					okAll = false
					break
				}
				goArgs = append(goArgs, g)
			}
			if okAll {
				return ex.tc.StrConst(fmt.Sprintf(t.s, goArgs...))
			}
			return ex.tc.StrConst("<fmt:" + t.s + ">")
		}
		return ex.tc.StrConst("<fmt>")
	}
	m["fmt.Sprintf"] = sprintf
	m["fmt.Sprint"] = func(ex *Exec, c *frame, fn *ssa.Function, a []value) value { return ex.tc.StrConst("<fmt.Sprint>") }
	m["fmt.Fprintf"] = func(ex *Exec, c *frame, fn *ssa.Function, a []value) value {
		return tuple{ex.tc.Int64(0), iface{}}
	}
	m["fmt.Println"] = m["fmt.Fprintf"]
	m["fmt.Printf"] = m["fmt.Fprintf"]
	m["errors.Is"] = func(ex *Exec, c *frame, fn *ssa.Function, a []value) value {
		err, target := a[0].(iface), a[1].(iface)
		return ex.errorsIs(c, err, target, 0)
	}
	m["errors.As"] = func(ex *Exec, c *frame, fn *ssa.Function, a []value) value {
		return ex.errorsAs(c, a[0].(iface), a[1].(iface))
	}
	// --- net/textproto, http helpers on concrete strings ---
	m["net/textproto.CanonicalMIMEHeaderKey"] = func(ex *Exec, c *frame, fn *ssa.Function, a []value) value {
		return ex.tc.StrConst(textproto.CanonicalMIMEHeaderKey(ex.constStr(a[0], "header key")))
	}
	m["net/http.CanonicalHeaderKey"] = m["net/textproto.CanonicalMIMEHeaderKey"]
	m["net/http.StatusText"] = func(ex *Exec, c *frame, fn *ssa.Function, a []value) value {
		return ex.statusTextOf(a[0].(*Term))
	}
	m["strconv.Itoa"] = func(ex *Exec, c *frame, fn *ssa.Function, a []value) value {
		t := a[0].(*Term)
		if t.IsConst() {
			return ex.tc.StrConst(strconv.FormatInt(signExt(t.u, 64), 10))
		}
		return ex.tc.UF("strconv_Itoa", StrSort, t)
	}
	m["strconv.FormatInt"] = func(ex *Exec, c *frame, fn *ssa.Function, a []value) value {
		t, b := a[0].(*Term), a[1].(*Term)
		if t.IsConst() && b.IsConst() {
			return ex.tc.StrConst(strconv.FormatInt(signExt(t.u, 64), int(b.u)))
		}
		return ex.tc.UF("strconv_FormatInt", StrSort, t, b)
	}
	m["os.Hostname"] = func(ex *Exec, c *frame, fn *ssa.Function, a []value) value {
		return tuple{ex.input("os.hostname", StrSort), iface{}}
	}
	tempFile := func(ex *Exec, c *frame, fn *ssa.Function, a []value) value {
		ft := ex.files
		ft.created++
		cell := new(value)
		// *os.File points to a struct; its contents are never inspected by interpreted code
		*cell = ex.zero(fn.Signature.Results().At(0).Type().(*types.Pointer).Elem())
		ft.files[cell] = &fileState{name: fmt.Sprintf("/tmp/temp-multibuf-%d", ft.created), open: true, exists: true}
		ft.order = append(ft.order, cell)
		return tuple{cell, iface{}}
	}
	m["os.CreateTemp"] = tempFile
	m["io/ioutil.TempFile"] = tempFile
	m["os.Remove"] = func(ex *Exec, c *frame, fn *ssa.Function, a []value) value {
		name := ex.constStr(a[0], "file name")
		for _, p := range ex.files.order {
			fs := ex.files.files[p]
			if fs.name == name && fs.exists {
				fs.exists = false
				return iface{}
			}
		}
		return ex.osErr("remove " + name + ": no such file or directory")
	}
	m["(*os.File).Name"] = func(ex *Exec, c *frame, fn *ssa.Function, a []value) value {
		return ex.tc.StrConst(ex.fileOf(a[0]).name)
	}
	m["(*os.File).Close"] = func(ex *Exec, c *frame, fn *ssa.Function, a []value) value {
		fs := ex.fileOf(a[0])
		if !fs.open {
			return ex.osErr("close " + fs.name + ": file already closed")
		}
		fs.open = false
		return iface{}
	}
	m["(*os.File).Write"] = func(ex *Exec, c *frame, fn *ssa.Function, a []value) value {
		fs := ex.fileOf(a[0])
		if !fs.open {
			return tuple{ex.tc.Int64(0), ex.osErr("write " + fs.name + ": file already closed")}
		}
		b := a[1].([]value)
		for _, x := range b {
			if fs.pos < len(fs.data) {
				fs.data[fs.pos] = x
			} else {
				fs.data = append(fs.data, x)
			}
			fs.pos++
		}
		return tuple{ex.tc.Int64(int64(len(b))), iface{}}
	}
	m["(*os.File).Read"] = func(ex *Exec, c *frame, fn *ssa.Function, a []value) value {
		fs := ex.fileOf(a[0])
		if !fs.open {
			return tuple{ex.tc.Int64(0), ex.osErr("read " + fs.name + ": file already closed")}
		}
		b := a[1].([]value)
		if len(b) == 0 {
			return tuple{ex.tc.Int64(0), iface{}}
		}
		if fs.pos >= len(fs.data) {
			return tuple{ex.tc.Int64(0), ex.eofValue()}
		}
		n := 0
		for n < len(b) && fs.pos < len(fs.data) {
			ex.storeCell(&b[n], fs.data[fs.pos])
			n++
			fs.pos++
		}
		return tuple{ex.tc.Int64(int64(n)), iface{}}
	}
	m["(*os.File).Seek"] = func(ex *Exec, c *frame, fn *ssa.Function, a []value) value {
		fs := ex.fileOf(a[0])
		if !fs.open {
			return tuple{ex.tc.Int64(0), ex.osErr("seek " + fs.name + ": file already closed")}
		}
		off := ex.concreteInt(a[1], "seek offset")
		wh := ex.concreteInt(a[2], "seek whence")
		switch wh {
		case 0:
			fs.pos = int(off)
		case 1:
			fs.pos += int(off)
		case 2:
			fs.pos = len(fs.data) + int(off)
		}
		return tuple{ex.tc.Int64(int64(fs.pos)), iface{}}
	}
	m["(*os.File).ReadFrom"] = func(ex *Exec, c *frame, fn *ssa.Function, a []value) value {
		// generic copy loop: read from the source through its Read method
		src := a[1].(iface)
		total := int64(0)
		for iter := 0; iter < 4096; iter++ {
			buf := make([]value, 512)
			for i := range buf {
				buf[i] = ex.tc.BVConst(8, 0)
			}
			r := ex.callMethod(c, src, "Read", buf).(tuple)
			n := ex.concreteInt(r[0], "Read result")
			if n > 0 {
				models["(*os.File).Write"](ex, c, fn, []value{a[0], buf[:n]})
				total += n
			}
			if e := r[1].(iface); e.t != nil {
				if sameVal(e, ex.eofValue()) {
					return tuple{ex.tc.Int64(total), iface{}}
				}
				return tuple{ex.tc.Int64(total), e}
			}
		}
		panic(unsupported{"ReadFrom: source never ends"})
	}
	m["context.Background"] = func(ex *Exec, c *frame, fn *ssa.Function, a []value) value {
		if cp := ex.prog.ImportedPackage("context"); cp != nil {
			if tn := cp.Type("backgroundCtx"); tn != nil {
				return iface{t: tn.Type(), v: ex.zero(tn.Type())}
			}
		}
		panic(unsupported{"context.Background"})
	}
	// --- math ---
	m["math.Abs"] = func(ex *Exec, c *frame, fn *ssa.Function, a []value) value { return ex.tc.FPAbs(a[0].(*Term)) }
	m["math.IsNaN"] = func(ex *Exec, c *frame, fn *ssa.Function, a []value) value { return ex.tc.FPIsNaN(a[0].(*Term)) }
	m["sort.Float64s"] = func(ex *Exec, c *frame, fn *ssa.Function, a []value) value {
		s := a[0].([]value)
		ex.sortFloats(s)
		return nil
	}
	m["sort.Sort"] = nil
	delete(m, "sort.Sort")
	// --- strings on possibly symbolic strings ---
	m["strings.Index"] = func(ex *Exec, c *frame, fn *ssa.Function, a []value) value {
		tc := ex.tc
		return tc.IntToBV(tc.StrIndexOf(a[0].(*Term), a[1].(*Term), tc.IntConst(0)), 64)
	}
	m["strings.IndexByte"] = func(ex *Exec, c *frame, fn *ssa.Function, a []value) value {
		tc := ex.tc
		b := a[1].(*Term)
		if !b.IsConst() {
			panic(unsupported{"IndexByte with symbolic byte"})
		}
		return tc.IntToBV(tc.StrIndexOf(a[0].(*Term), tc.StrConst(string([]byte{byte(b.u)})), tc.IntConst(0)), 64)
	}
	m["internal/bytealg.IndexByteString"] = m["strings.IndexByte"]
	m["strings.Contains"] = func(ex *Exec, c *frame, fn *ssa.Function, a []value) value {
		return ex.tc.StrContains(a[0].(*Term), a[1].(*Term))
	}
	m["strings.HasPrefix"] = func(ex *Exec, c *frame, fn *ssa.Function, a []value) value {
		return ex.tc.StrPrefixOf(a[1].(*Term), a[0].(*Term))
	}
	m["strings.HasSuffix"] = func(ex *Exec, c *frame, fn *ssa.Function, a []value) value {
		return ex.tc.StrSuffixOf(a[1].(*Term), a[0].(*Term))
	}
	m["strings.LastIndex"] = func(ex *Exec, c *frame, fn *ssa.Function, a []value) value {
		return ex.lastIndex(a[0].(*Term), a[1].(*Term))
	}
	m["strings.LastIndexByte"] = func(ex *Exec, c *frame, fn *ssa.Function, a []value) value {
		b := a[1].(*Term)
		if !b.IsConst() {
			panic(unsupported{"LastIndexByte with symbolic byte"})
		}
		return ex.lastIndex(a[0].(*Term), ex.tc.StrConst(string([]byte{byte(b.u)})))
	}
	m["strings.SplitN"] = func(ex *Exec, c *frame, fn *ssa.Function, a []value) value {
		return ex.splitN(a[0].(*Term), a[1].(*Term), a[2].(*Term))
	}
	m["strings.ToLower"] = func(ex *Exec, c *frame, fn *ssa.Function, a []value) value {
		t := a[0].(*Term)
		if t.IsConst() {
			return ex.tc.StrConst(strings.ToLower(t.s))
		}
		return ex.tc.UF("strings_ToLower", StrSort, t)
	}
	m["strings.TrimSpace"] = func(ex *Exec, c *frame, fn *ssa.Function, a []value) value {
		t := a[0].(*Term)
		if t.IsConst() {
			return ex.tc.StrConst(strings.TrimSpace(t.s))
		}
		return ex.tc.UF("strings_TrimSpace", StrSort, t)
	}
	m["strings.EqualFold"] = func(ex *Exec, c *frame, fn *ssa.Function, a []value) value {
		x, y := a[0].(*Term), a[1].(*Term)
		if x.IsConst() && y.IsConst() {
			return ex.tc.Bool(strings.EqualFold(x.s, y.s))
		}
		return ex.tc.UF("strings_EqualFold", BoolSort, x, y)
	}
}

func implementsError(prog *ssa.Program, t types.Type) bool {
	ms := prog.MethodSets.MethodSet(t)
	return ms.Lookup(nil, "Error") != nil
}

// toGo converts a concrete value into a Go value for native formatting.
func (ex *Exec) toGo(v value) (interface{}, bool) {
	switch x := v.(type) {
	case iface:
		if x.t == nil {
			return nil, true
		}
		if t, ok := x.v.(*Term); ok && t.IsConst() {
			switch t.sort.K {
			case SBool:
				return t.BoolVal(), true
			case SBV:
				if isUnsigned(x.t) {
					return t.u, true
				}
				return signExt(t.u, t.sort.W), true
			case SFP:
				return t.f, true
			case SStr:
				return t.s, true
			}
		}
		return nil, false
	case *Term:
		if x.IsConst() {
			switch x.sort.K {
			case SBool:
				return x.BoolVal(), true
			case SBV:
				return signExt(x.u, x.sort.W), true
			case SFP:
				return x.f, true
			case SStr:
				return x.s, true
			}
		}
	}
	return nil, false
}

func (ex *Exec) errorsIs(c *frame, err, target iface, depth int) *Term {
	tc := ex.tc
	if err.t == nil || target.t == nil {
		return tc.Bool(err.t == nil && target.t == nil)
	}
	if depth > 8 {
		panic(unsupported{"errors.Is chain too deep"})
	}
	cur := err
	for i := 0; i < 10; i++ {
		// comparable check: only pointer / scalar / struct-of-scalar dynamic types compared
		if types.Identical(cur.t, target.t) && types.Comparable(cur.t) {
			e := ex.equals(cur.t, cur.v, target.v)
			if e.IsConst() {
				if e.BoolVal() {
					return tc.True()
				}
			} else if ex.branch(e) {
				return tc.True()
			}
		}
		// Is method
		if f := ex.lookupMethod(cur.t, nil, "Is"); f != nil && f.Signature.Params().Len() == 1 {
			r := ex.call(c, f, []value{cur.v, target}, token.NoPos).(*Term)
			if r.IsConst() {
				if r.BoolVal() {
					return tc.True()
				}
			} else if ex.branch(r) {
				return tc.True()
			}
		}
		f := ex.lookupMethod(cur.t, nil, "Unwrap")
		if f == nil {
			return tc.False()
		}
		res := f.Signature.Results()
		if res.Len() != 1 {
			return tc.False()
		}
		r := ex.call(c, f, []value{cur.v}, token.NoPos)
		switch x := r.(type) {
		case iface:
			if x.t == nil {
				return tc.False()
			}
			cur = x
		case []value:
			for _, e := range x {
				sub := ex.errorsIs(c, e.(iface), target, depth+1)
				if sub.IsConst() && sub.BoolVal() {
					return tc.True()
				}
			}
			return tc.False()
		default:
			return tc.False()
		}
	}
	panic(unsupported{"errors.Is chain too long"})
}

func (ex *Exec) errorsAs(c *frame, err, target iface) *Term {
	tc := ex.tc
	if target.t == nil {
		panic(targetPanic{ex.newErrorValue("errors: target cannot be nil")})
	}
	pt, ok := target.t.(*types.Pointer)
	if !ok {
		panic(unsupported{"errors.As target not a pointer"})
	}
	want := pt.Elem()
	cur := err
	for i := 0; i < 10 && cur.t != nil; i++ {
		match := false
		if it, isI := want.Underlying().(*types.Interface); isI {
			match = implementsViaMethodSet(ex.prog, cur.t, it)
		} else {
			match = types.Identical(cur.t, want)
		}
		if match {
			if _, isI := want.Underlying().(*types.Interface); isI {
				ex.store(want, target.v, cur)
			} else {
				ex.store(want, target.v, cur.v)
			}
			return tc.True()
		}
		f := ex.lookupMethod(cur.t, nil, "Unwrap")
		if f == nil {
			return tc.False()
		}
		r := ex.call(c, f, []value{cur.v}, token.NoPos)
		x, ok := r.(iface)
		if !ok {
			return tc.False()
		}
		cur = x
	}
	return tc.False()
}

// lazy initial values of std-library globals (their package inits are not executed)
func (ex *Exec) lazyStdGlobal(g *ssa.Global, p *value, et types.Type) {
	if _, isI := et.Underlying().(*types.Interface); isI && types.Identical(et, types.Universe.Lookup("error").Type()) {
		full := g.Pkg.Pkg.Path() + "." + g.Name()
		if full == "context.DeadlineExceeded" {
			if tn := g.Pkg.Type("deadlineExceededError"); tn != nil {
				*p = iface{t: tn.Type(), v: structure{}}
				return
			}
		}
		*p = ex.newErrorValue(full)
		return
	}
	switch g.Pkg.Pkg.Path() {
	case "net/http":
		switch g.Name() {
		case "NoBody":
			if tn := g.Pkg.Type("noBody"); tn != nil {
				*p = structure{}
				return
			}
		}
	}
	// other globals keep their zero value; flag reads of pointer/map/func-typed ones
	switch et.Underlying().(type) {
	case *types.Basic, *types.Struct, *types.Array:
		return
	}
	ex.ghost["stdglobal:"+g.String()] = nil
}

// branch-free sorting network for small float slices
func (ex *Exec) sortFloats(s []value) {
	n := len(s)
	if n > 8 {
		panic(unsupported{"sort.Float64s on more than 8 elements"})
	}
	tc := ex.tc
	for i := 0; i < n; i++ {
		for j := 0; j+1 < n-i; j++ {
			a, b := s[j].(*Term), s[j+1].(*Term)
			// NaN ordering as sort.Float64s: x < y || (isNaN(x) && !isNaN(y))
			less := tc.Or(tc.FPCmp("fp.lt", b, a), tc.And(tc.FPIsNaN(b), tc.Not(tc.FPIsNaN(a))))
			ex.storeCell(&s[j], tc.Ite(less, b, a))
			ex.storeCell(&s[j+1], tc.Ite(less, a, b))
		}
	}
}

func (ex *Exec) lastIndex(s, sep *Term) value {
	tc := ex.tc
	if s.IsConst() && sep.IsConst() {
		return tc.Int64(int64(strings.LastIndex(s.s, sep.s)))
	}
	if !sep.IsConst() {
		panic(unsupported{"LastIndex with symbolic separator"})
	}
	j := tc.Var(ex.freshName("lastidx"), IntSort)
	// defining axiom
	n := tc.IntConst(int64(len(sep.s)))
	none := tc.And(tc.Eq(j, tc.IntConst(-1)), tc.Not(tc.StrContains(s, sep)))
	at := tc.And(tc.IntCmp(">=", j, tc.IntConst(0)),
		tc.Eq(tc.StrSubstr(s, j, n), sep),
		tc.Not(tc.StrContains(tc.StrSubstr(s, tc.IntBin("+", j, tc.IntConst(1)), tc.StrLen(s)), sep)))
	ex.addCond(tc.Or(none, at))
	return tc.IntToBV(j, 64)
}

func (ex *Exec) splitN(s, sep, n *Term) value {
	tc := ex.tc
	if s.IsConst() && sep.IsConst() && n.IsConst() {
		parts := strings.SplitN(s.s, sep.s, int(signExt(n.u, 64)))
		out := make([]value, len(parts))
		for i, p := range parts {
			out[i] = tc.StrConst(p)
		}
		return out
	}
	if !n.IsConst() || signExt(n.u, 64) != 2 || !sep.IsConst() || sep.s == "" {
		panic(unsupported{"strings.SplitN with symbolic arguments other than (s, const, 2)"})
	}
	has := tc.StrContains(s, sep)
	if ex.branch(has) {
		i := tc.StrIndexOf(s, sep, tc.IntConst(0))
		a := tc.StrSubstr(s, tc.IntConst(0), i)
		off := tc.IntBin("+", i, tc.IntConst(int64(len(sep.s))))
		b := tc.StrSubstr(s, off, tc.IntBin("-", tc.StrLen(s), off))
		return []value{a, b}
	}
	return []value{s}
}

func httpStatusText(code int) string {
	return statusTexts[code]
}

var statusTexts = map[int]string{
	100: "Continue", 101: "Switching Protocols", 102: "Processing", 103: "Early Hints",
	200: "OK", 201: "Created", 202: "Accepted", 203: "Non-Authoritative Information", 204: "No Content", 205: "Reset Content", 206: "Partial Content", 207: "Multi-Status", 208: "Already Reported", 226: "IM Used",
	300: "Multiple Choices", 301: "Moved Permanently", 302: "Found", 303: "See Other", 304: "Not Modified", 305: "Use Proxy", 307: "Temporary Redirect", 308: "Permanent Redirect",
	400: "Bad Request", 401: "Unauthorized", 402: "Payment Required", 403: "Forbidden", 404: "Not Found", 405: "Method Not Allowed", 406: "Not Acceptable", 407: "Proxy Authentication Required", 408: "Request Timeout", 409: "Conflict", 410: "Gone", 411: "Length Required", 412: "Precondition Failed", 413: "Request Entity Too Large", 414: "Request URI Too Long", 415: "Unsupported Media Type", 416: "Requested Range Not Satisfiable", 417: "Expectation Failed", 418: "I'm a teapot", 421: "Misdirected Request", 422: "Unprocessable Entity", 423: "Locked", 424: "Failed Dependency", 425: "Too Early", 426: "Upgrade Required", 428: "Precondition Required", 429: "Too Many Requests", 431: "Request Header Fields Too Large", 451: "Unavailable For Legal Reasons",
	500: "Internal Server Error", 501: "Not Implemented", 502: "Bad Gateway", 503: "Service Unavailable", 504: "Gateway Timeout", 505: "HTTP Version Not Supported", 506: "Variant Also Negotiates", 507: "Insufficient Storage", 508: "Loop Detected", 510: "Not Extended", 511: "Network Authentication Required",
}

func sortedKeys(m map[string]bool) []string {
	var ks []string
	for k := range m {
		ks = append(ks, k)
	}
	sort.Strings(ks)
	return ks
}

// lookupMethod is LookupMethod that returns nil instead of panicking when absent.
func (ex *Exec) lookupMethod(t types.Type, pkg *types.Package, name string) *ssa.Function {
	sel := ex.prog.MethodSets.MethodSet(t).Lookup(pkg, name)
	if sel == nil {
		return nil
	}
	return ex.prog.MethodValue(sel)
}

func (ex *Exec) statusTextOf(t *Term) *Term {
	if t.IsConst() {
		return ex.tc.StrConst(httpStatusText(int(signExt(t.u, 64))))
	}
	if t.op == "ite" {
		return ex.tc.Ite(t.args[0], ex.statusTextOf(t.args[1]), ex.statusTextOf(t.args[2]))
	}
	return ex.tc.UF("http_StatusText", StrSort, t)
}

type raceAccess struct {
	write bool
	locks map[int]string // lock index -> mode (W/R)
}

func parseLocks(desc string) map[int]string {
	m := map[int]string{}
	if desc == "" {
		return m
	}
	for _, p := range strings.Split(desc, ",") {
		var i int
		var mode string
		if n, _ := fmt.Sscanf(p, "L%d:%s", &i, &mode); n == 2 {
			m[i] = mode
		}
	}
	return m
}

// protectedBy: do two accesses hold a common lock in a mode that excludes each other?
func protectedBy(a, b map[int]string) bool {
	for i, ma := range a {
		if mb, ok := b[i]; ok && (ma == "W" || mb == "W") {
			return true
		}
	}
	return false
}

// racePair runs two entry points one after the other from the current state with access
// logging on the shared cells and maps (lockset analysis): two accesses to the same location,
// at least one a write, with no common lock held in an excluding mode, are a data race of
// two goroutines running the entry points concurrently.
func (ex *Exec) racePair(caller *frame, name string, fa, fb value, pos token.Pos) {
	run := func(f value) ([]accessRec, []mapAccessRec) {
		ex.remarkShared()
		ex.accessLog, ex.mapLog = nil, nil
		ex.logAccess = true
		func() {
			defer func() {
				ex.logAccess = false
				if r := recover(); r != nil {
					tp, isT := r.(targetPanic)
					if !isT {
						panic(r)
					}
					// an entry point that panics would hide its later accesses: not acceptable silently
					panic(unsupported{"entry point of race pair " + name + " panicked: " + ex.panicMessage(tp.v)})
				}
			}()
			if itf, ok := f.(iface); ok {
				f = itf.v
			}
			ex.call(caller, f, nil, pos)
		}()
		return ex.accessLog, ex.mapLog
	}
	la, ma := run(fa)
	lb, mb := run(fb)
	if verbose {
		fmt.Printf("    racePair %s: accesses A=%d/%d B=%d/%d shared cells=%d maps=%d\n", name, len(la), len(ma), len(lb), len(mb), len(ex.sharedSet), len(ex.sharedMaps))
	}
	conflict := ""
	byCell := map[*value][]accessRec{}
	for _, a := range la {
		byCell[a.cell] = append(byCell[a.cell], a)
	}
	for _, b := range lb {
		for _, a := range byCell[b.cell] {
			if (a.write || b.write) && !protectedBy(parseLocks(a.locks), parseLocks(b.locks)) {
				conflict = fmt.Sprintf("cell %s: %s under {%s} vs %s under {%s}", ex.describeCell(b.cell), rw(a.write), a.locks, rw(b.write), b.locks)
				break
			}
		}
		if conflict != "" {
			break
		}
	}
	if conflict == "" {
		for _, b := range mb {
			for _, a := range ma {
				if a.m == b.m && (a.write || b.write) && !protectedBy(parseLocks(a.locks), parseLocks(b.locks)) {
					conflict = fmt.Sprintf("map #%d: %s under {%s} vs %s under {%s}", a.m.id, rw(a.write), a.locks, rw(b.write), b.locks)
					break
				}
			}
			if conflict != "" {
				break
			}
		}
	}
	label := "no-data-race/" + name
	if conflict != "" {
		ex.assert(label, ex.tc.False(), ex.pos(pos)+" "+conflict)
	} else {
		ex.assert(label, ex.tc.True(), ex.pos(pos))
	}
}

func rw(w bool) string {
	if w {
		return "write"
	}
	return "read"
}

func (ex *Exec) describeCell(p *value) string {
	if n, ok := ex.cellNames[p]; ok {
		return n
	}
	return fmt.Sprintf("%p", p)
}

// remarkShared extends the shared set with everything reachable from the roots now
// (objects published into shared state by earlier entry points).
func (ex *Exec) remarkShared() {
	if len(ex.sharedRoots) > 0 {
		ex.markShared(ex.sharedRoots)
	}
}

// ---------- native models for net/url on concrete values ----------

func (ex *Exec) strField(s structure, st *types.Struct, name string) string {
	for i := 0; i < st.NumFields(); i++ {
		if st.Field(i).Name() == name {
			t, ok := s[i].(*Term)
			if !ok || !t.IsConst() {
				panic(unsupported{"symbolic url field " + name})
			}
			return t.s
		}
	}
	panic(unsupported{"no field " + name})
}

func (ex *Exec) fieldIndex(st *types.Struct, name string) int {
	for i := 0; i < st.NumFields(); i++ {
		if st.Field(i).Name() == name {
			return i
		}
	}
	return -1
}

func (ex *Exec) boolField(s structure, st *types.Struct, name string) bool {
	i := ex.fieldIndex(st, name)
	t, ok := s[i].(*Term)
	if !ok || !t.IsConst() {
		panic(unsupported{"symbolic url field " + name})
	}
	return t.BoolVal()
}

// urlToGo converts an engine *url.URL (pointer to struct cell) into a Go url.URL.
func (ex *Exec) urlToGo(p *value, t types.Type) *url.URL {
	if p == nil {
		ex.runtimePanic("nil *url.URL")
	}
	s := (*p).(structure)
	st := t.Underlying().(*types.Struct)
	u := &url.URL{
		Scheme: ex.strField(s, st, "Scheme"), Opaque: ex.strField(s, st, "Opaque"), Host: ex.strField(s, st, "Host"),
		Path: ex.strField(s, st, "Path"), RawPath: ex.strField(s, st, "RawPath"), RawQuery: ex.strField(s, st, "RawQuery"),
		Fragment: ex.strField(s, st, "Fragment"), RawFragment: ex.strField(s, st, "RawFragment"),
		OmitHost: ex.boolField(s, st, "OmitHost"), ForceQuery: ex.boolField(s, st, "ForceQuery"),
	}
	ui := ex.fieldIndex(st, "User")
	if up, ok := s[ui].(*value); ok && up != nil {
		us := (*up).(structure)
		ust := st.Field(ui).Type().(*types.Pointer).Elem().Underlying().(*types.Struct)
		name := ex.strField(us, ust, "username")
		if ex.boolField(us, ust, "passwordSet") {
			u.User = url.UserPassword(name, ex.strField(us, ust, "password"))
		} else {
			u.User = url.User(name)
		}
	}
	return u
}

// urlFromGo builds an engine url.URL struct cell from a Go url.URL.
func (ex *Exec) urlFromGo(u *url.URL, t types.Type) *value {
	st := t.Underlying().(*types.Struct)
	s := ex.zero(t).(structure)
	set := func(name string, v value) { s[ex.fieldIndex(st, name)] = v }
	tc := ex.tc
	set("Scheme", tc.StrConst(u.Scheme))
	set("Opaque", tc.StrConst(u.Opaque))
	set("Host", tc.StrConst(u.Host))
	set("Path", tc.StrConst(u.Path))
	set("RawPath", tc.StrConst(u.RawPath))
	set("RawQuery", tc.StrConst(u.RawQuery))
	set("Fragment", tc.StrConst(u.Fragment))
	set("RawFragment", tc.StrConst(u.RawFragment))
	set("OmitHost", tc.Bool(u.OmitHost))
	set("ForceQuery", tc.Bool(u.ForceQuery))
	if u.User != nil {
		ui := ex.fieldIndex(st, "User")
		ut := st.Field(ui).Type().(*types.Pointer).Elem()
		ust := ut.Underlying().(*types.Struct)
		us := ex.zero(ut).(structure)
		pw, has := u.User.Password()
		us[ex.fieldIndex(ust, "username")] = tc.StrConst(u.User.Username())
		us[ex.fieldIndex(ust, "password")] = tc.StrConst(pw)
		us[ex.fieldIndex(ust, "passwordSet")] = tc.Bool(has)
		c := new(value)
		*c = us
		set("User", c)
	}
	c := new(value)
	*c = s
	return c
}

func init() {
	m := models
	m["(*net/url.URL).String"] = func(ex *Exec, c *frame, fn *ssa.Function, a []value) value {
		t := fn.Signature.Recv().Type().(*types.Pointer).Elem()
		return ex.tc.StrConst(ex.urlToGo(a[0].(*value), t).String())
	}
	m["(*net/url.URL).RequestURI"] = func(ex *Exec, c *frame, fn *ssa.Function, a []value) value {
		t := fn.Signature.Recv().Type().(*types.Pointer).Elem()
		return ex.tc.StrConst(ex.urlToGo(a[0].(*value), t).RequestURI())
	}
	parse := func(f func(string) (*url.URL, error)) modelFn {
		return func(ex *Exec, c *frame, fn *ssa.Function, a []value) value {
			s := ex.constStr(a[0], "url string")
			u, err := f(s)
			pt := fn.Signature.Results().At(0).Type().(*types.Pointer)
			if err != nil {
				return tuple{(*value)(nil), ex.newErrorValue(err.Error())}
			}
			return tuple{ex.urlFromGo(u, pt.Elem()), iface{}}
		}
	}
	// net.ResolveTCPAddr on a concrete "IP-literal:port" (no name resolution involved) is
	// evaluated by the host's net package; anything else stays unsupported
	m["net.ResolveTCPAddr"] = func(ex *Exec, c *frame, fn *ssa.Function, a []value) value {
		nw, ok1 := a[0].(*Term)
		ad, ok2 := a[1].(*Term)
		pt := fn.Signature.Results().At(0).Type().(*types.Pointer)
		if !ok1 || !ok2 || !nw.IsConst() || !ad.IsConst() {
			panic(unsupported{"net.ResolveTCPAddr on a symbolic address"})
		}
		host, _, err := net.SplitHostPort(ad.s)
		if err == nil {
			h := host
			if i := strings.LastIndexByte(h, '%'); i >= 0 {
				h = h[:i]
			}
			if h != "" && net.ParseIP(h) == nil {
				panic(unsupported{"name resolution is not modelled: net.ResolveTCPAddr(" + ad.s + ")"})
			}
		}
		r, err := net.ResolveTCPAddr(nw.s, ad.s)
		if err != nil {
			return tuple{(*value)(nil), ex.newErrorValue(err.Error())}
		}
		st := pt.Elem().Underlying().(*types.Struct)
		sv := ex.zero(pt.Elem()).(structure)
		if r.IP != nil {
			ip := make([]value, len(r.IP))
			for i, b := range r.IP {
				ip[i] = ex.tc.BVConst(8, uint64(b))
			}
			sv[ex.fieldIndex(st, "IP")] = ip
		}
		sv[ex.fieldIndex(st, "Port")] = ex.tc.Int64(int64(r.Port))
		sv[ex.fieldIndex(st, "Zone")] = ex.tc.StrConst(r.Zone)
		cell := new(value)
		*cell = sv
		return tuple{cell, iface{}}
	}
	m["(net.IP).String"] = func(ex *Exec, c *frame, fn *ssa.Function, a []value) value {
		sl, _ := a[0].([]value)
		bs := make([]byte, len(sl))
		for i, e := range sl {
			t, ok := e.(*Term)
			if !ok || !t.IsConst() {
				panic(unsupported{"net.IP.String on symbolic bytes"})
			}
			bs[i] = byte(t.u)
		}
		if a[0] == nil || sl == nil {
			return ex.tc.StrConst(net.IP(nil).String())
		}
		return ex.tc.StrConst(net.IP(bs).String())
	}
	m["net/url.Parse"] = parse(url.Parse)
	m["net/url.ParseRequestURI"] = parse(url.ParseRequestURI)
	m["strconv.FormatUint"] = func(ex *Exec, c *frame, fn *ssa.Function, a []value) value {
		t, b := a[0].(*Term), a[1].(*Term)
		if t.IsConst() && b.IsConst() {
			return ex.tc.StrConst(strconv.FormatUint(t.u, int(b.u)))
		}
		return ex.tc.UF("strconv_FormatUint", StrSort, t, b)
	}
	m["strconv.ParseInt"] = func(ex *Exec, c *frame, fn *ssa.Function, a []value) value {
		s := ex.constStr(a[0], "ParseInt input")
		v, err := strconv.ParseInt(s, int(ex.concreteInt(a[1], "base")), int(ex.concreteInt(a[2], "bits")))
		if err != nil {
			return tuple{ex.tc.Int64(v), ex.newErrorValue(err.Error())}
		}
		return tuple{ex.tc.Int64(v), iface{}}
	}
	m["strconv.Atoi"] = func(ex *Exec, c *frame, fn *ssa.Function, a []value) value {
		s := ex.constStr(a[0], "Atoi input")
		v, err := strconv.Atoi(s)
		if err != nil {
			return tuple{ex.tc.Int64(int64(v)), ex.newErrorValue(err.Error())}
		}
		return tuple{ex.tc.Int64(int64(v)), iface{}}
	}
	m["strings.Split"] = func(ex *Exec, c *frame, fn *ssa.Function, a []value) value {
		if st, ok := a[0].(*Term); ok && !st.IsConst() {
			// symbolic input, constant non-empty separator: one case split per occurrence
			// (the path condition bounds the length, so the splitting ends)
			sepT, ok2 := a[1].(*Term)
			if !ok2 || !sepT.IsConst() || sepT.s == "" {
				panic(unsupported{"strings.Split with a symbolic or empty separator"})
			}
			tc := ex.tc
			var out []value
			rest := st
			for n := 0; ; n++ {
				if n > 24 {
					panic(unsupported{"strings.Split: more than 24 separators on a symbolic string"})
				}
				if !ex.branch(tc.StrContains(rest, sepT)) {
					return append(out, rest)
				}
				i := tc.StrIndexOf(rest, sepT, tc.IntConst(0))
				out = append(out, tc.StrSubstr(rest, tc.IntConst(0), i))
				off := tc.IntBin("+", i, tc.IntConst(int64(len(sepT.s))))
				rest = tc.StrSubstr(rest, off, tc.IntBin("-", tc.StrLen(rest), off))
			}
		}
		s, sep := ex.constStr(a[0], "Split input"), ex.constStr(a[1], "Split separator")
		parts := strings.Split(s, sep)
		out := make([]value, len(parts))
		for i, p := range parts {
			out[i] = ex.tc.StrConst(p)
		}
		return out
	}
}

// ---------- native models for http cookies (net/http package state is not initialised) ----------

func (ex *Exec) headerValues(h *mapV, key string) []string {
	if h == nil {
		return nil
	}
	for i, k := range h.keys {
		if kt, ok := k.(*Term); ok && kt.IsConst() && kt.s == key {
			var out []string
			for _, v := range h.vals[i].([]value) {
				out = append(out, ex.constStr(v, "header value"))
			}
			return out
		}
	}
	return nil
}

func (ex *Exec) headerSetValues(h *mapV, key string, vals []string) {
	vs := make([]value, len(vals))
	for i, s := range vals {
		vs[i] = ex.tc.StrConst(s)
	}
	ex.noteMapAccess(h, true)
	for i, k := range h.keys {
		if kt, ok := k.(*Term); ok && kt.IsConst() && kt.s == key {
			h.vals[i] = vs
			return
		}
	}
	h.keys = append(h.keys, ex.tc.StrConst(key))
	h.vals = append(h.vals, vs)
}

func (ex *Exec) cookieToGo(p *value, t types.Type) *http.Cookie {
	s := (*p).(structure)
	st := t.Underlying().(*types.Struct)
	c := &http.Cookie{Name: ex.strField(s, st, "Name"), Value: ex.strField(s, st, "Value"), Path: ex.strField(s, st, "Path"), Domain: ex.strField(s, st, "Domain"),
		Secure: ex.boolField(s, st, "Secure"), HttpOnly: ex.boolField(s, st, "HttpOnly")}
	if i := ex.fieldIndex(st, "MaxAge"); i >= 0 {
		c.MaxAge = int(ex.concreteInt(s[i], "MaxAge"))
	}
	if i := ex.fieldIndex(st, "SameSite"); i >= 0 {
		c.SameSite = http.SameSite(ex.concreteInt(s[i], "SameSite"))
	}
	if i := ex.fieldIndex(st, "Expires"); i >= 0 {
		if tv, ok := s[i].(timeV); ok && !(tv.q.IsConst() && tv.q.isZero()) {
			panic(unsupported{"cookie with Expires"})
		}
	}
	return c
}

func init() {
	m := models
	m["net/http.SetCookie"] = func(ex *Exec, c *frame, fn *ssa.Function, a []value) value {
		ct := fn.Signature.Params().At(1).Type().(*types.Pointer).Elem()
		ck := ex.cookieToGo(a[1].(*value), ct)
		if v := ck.String(); v != "" {
			w := a[0].(iface)
			h := ex.callMethod(c, w, "Header").(*mapV)
			ex.headerSetValues(h, "Set-Cookie", append(ex.headerValues(h, "Set-Cookie"), v))
		}
		return nil
	}
	reqHeader := func(ex *Exec, p *value, fn *ssa.Function) *mapV {
		st := fn.Signature.Recv().Type().(*types.Pointer).Elem().Underlying().(*types.Struct)
		s := (*p).(structure)
		h, _ := s[ex.fieldIndex(st, "Header")].(*mapV)
		return h
	}
	m["(*net/http.Request).AddCookie"] = func(ex *Exec, c *frame, fn *ssa.Function, a []value) value {
		ct := fn.Signature.Params().At(0).Type().(*types.Pointer).Elem()
		ck := ex.cookieToGo(a[1].(*value), ct)
		r := &http.Request{Header: http.Header{}}
		h := reqHeader(ex, a[0].(*value), fn)
		if h == nil {
			ex.runtimePanic("assignment to entry in nil map")
		}
		if old := ex.headerValues(h, "Cookie"); len(old) > 0 {
			r.Header["Cookie"] = old
		}
		r.AddCookie(ck)
		ex.headerSetValues(h, "Cookie", r.Header["Cookie"])
		return nil
	}
	m["(*net/http.Request).Cookie"] = func(ex *Exec, c *frame, fn *ssa.Function, a []value) value {
		name := ex.constStr(a[1], "cookie name")
		r := &http.Request{Header: http.Header{}}
		if h := reqHeader(ex, a[0].(*value), fn); h != nil {
			if vs := ex.headerValues(h, "Cookie"); len(vs) > 0 {
				r.Header["Cookie"] = vs
			}
		}
		ck, err := r.Cookie(name)
		pt := fn.Signature.Results().At(0).Type().(*types.Pointer)
		if err != nil {
			// http.ErrNoCookie
			if hp := ex.prog.ImportedPackage("net/http"); hp != nil {
				if g, ok := hp.Members["ErrNoCookie"].(*ssa.Global); ok {
					return tuple{(*value)(nil), *ex.globalAddr(g)}
				}
			}
			return tuple{(*value)(nil), ex.newErrorValue(err.Error())}
		}
		st := pt.Elem().Underlying().(*types.Struct)
		s := ex.zero(pt.Elem()).(structure)
		s[ex.fieldIndex(st, "Name")] = ex.tc.StrConst(ck.Name)
		s[ex.fieldIndex(st, "Value")] = ex.tc.StrConst(ck.Value)
		cell := new(value)
		*cell = s
		return tuple{cell, iface{}}
	}
}

func init() {
	m := models
	ident := func(ex *Exec, c *frame, fn *ssa.Function, a []value) value { return a[0] }
	m["internal/abi.NoEscape"] = ident
	m["strings.Join"] = func(ex *Exec, c *frame, fn *ssa.Function, a []value) value {
		parts := a[0].([]value)
		sep := a[1].(*Term)
		var res *Term = ex.tc.StrConst("")
		for i, p := range parts {
			if i > 0 {
				res = ex.tc.StrConcat(res, sep)
			}
			res = ex.tc.StrConcat(res, p.(*Term))
		}
		return res
	}
	m["strings.TrimPrefix"] = func(ex *Exec, c *frame, fn *ssa.Function, a []value) value {
		s, p := a[0].(*Term), a[1].(*Term)
		tc := ex.tc
		if s.IsConst() && p.IsConst() {
			return tc.StrConst(strings.TrimPrefix(s.s, p.s))
		}
		n := tc.StrLen(p)
		return tc.Ite(tc.StrPrefixOf(p, s), tc.StrSubstr(s, n, tc.IntBin("-", tc.StrLen(s), n)), s)
	}
	m["net/textproto.TrimString"] = func(ex *Exec, c *frame, fn *ssa.Function, a []value) value {
		return ex.tc.StrConst(textproto.TrimString(ex.constStr(a[0], "TrimString input")))
	}
}

type interleaveState struct {
	y     int
	b     value
	done  bool
	inB   bool
	n     int
	c     *frame
	label string
}

// maybePreempt: at a scheduling point of the first thread, a symbolic choice decides whether
// the second thread runs now (to completion).
func (ex *Exec) maybePreempt() {
	il := ex.interleave
	il.n++
	v := ex.input(fmt.Sprintf("preempt.%s.%d", il.label, il.n), BoolSort)
	// explore "no preemption here" first: schedules that switch at explicit yield points
	// (which native replays can force) are then found before those at lock boundaries
	if ex.branch(ex.tc.Not(v)) {
		return
	}
	il.done = true
	il.inB = true
	f := il.b
	if itf, ok := f.(iface); ok {
		f = itf.v
	}
	ex.call(il.c, f, nil, token.NoPos)
	il.inB = false
}

// runInterleaved executes a() with b() inserted at one symbolically chosen lock boundary of a
// (or after a, when no boundary was chosen).
func (ex *Exec) runInterleaved(caller *frame, label string, fa, fb value) {
	if ex.interleave != nil {
		panic(unsupported{"nested verifInterleave"})
	}
	il := &interleaveState{b: fb, c: caller, label: label}
	ex.interleave = il
	defer func() { ex.interleave = nil }()
	if itf, ok := fa.(iface); ok {
		fa = itf.v
	}
	ex.call(caller, fa, nil, token.NoPos)
	if !il.done {
		il.done, il.inB = true, true
		f := fb
		if itf, ok := f.(iface); ok {
			f = itf.v
		}
		ex.call(caller, f, nil, token.NoPos)
		il.inB = false
	}
}

func init() {
	m := models
	m["internal/bytealg.CountString"] = func(ex *Exec, c *frame, fn *ssa.Function, a []value) value {
		s := ex.constStr(a[0], "CountString input")
		b := a[1].(*Term)
		if !b.IsConst() {
			panic(unsupported{"CountString with symbolic byte"})
		}
		return ex.tc.Int64(int64(strings.Count(s, string([]byte{byte(b.u)}))))
	}
	m["internal/bytealg.IndexString"] = func(ex *Exec, c *frame, fn *ssa.Function, a []value) value {
		tc := ex.tc
		return tc.IntToBV(tc.StrIndexOf(a[0].(*Term), a[1].(*Term), tc.IntConst(0)), 64)
	}
	m["internal/bytealg.LastIndexByteString"] = func(ex *Exec, c *frame, fn *ssa.Function, a []value) value {
		b := a[1].(*Term)
		if !b.IsConst() {
			panic(unsupported{"LastIndexByteString with symbolic byte"})
		}
		return ex.lastIndex(a[0].(*Term), ex.tc.StrConst(string([]byte{byte(b.u)})))
	}
	m["strings.Count"] = func(ex *Exec, c *frame, fn *ssa.Function, a []value) value {
		return ex.tc.Int64(int64(strings.Count(ex.constStr(a[0], "Count input"), ex.constStr(a[1], "Count sep"))))
	}
}
