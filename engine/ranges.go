package main

// Interval facts implied by the path condition, used for sound strength reduction of
// 64-bit division / remainder / multiplication to narrow bit-vectors.

type ival struct{ lo, hi int64 }

const (
	minI64 = -1 << 63
	maxI64 = 1<<63 - 1
)

func (ex *Exec) learnBounds(c *Term) {
	switch c.op {
	case "and":
		for _, a := range c.args {
			ex.learnBounds(a)
		}
		return
	case "not":
		a := c.args[0]
		switch a.op {
		case "bvslt":
			ex.learnCmp("bvsge", a.args[0], a.args[1])
		case "bvsle":
			ex.learnCmp("bvsgt", a.args[0], a.args[1])
		case "bvsgt":
			ex.learnCmp("bvsle", a.args[0], a.args[1])
		case "bvsge":
			ex.learnCmp("bvslt", a.args[0], a.args[1])
		case "=":
			// x != K tightens an end point
			x, k := a.args[0], a.args[1]
			if x.IsConst() {
				x, k = k, x
			}
			if k.IsConst() && k.sort.K == SBV && k.sort.W == 64 {
				v := signExt(k.u, 64)
				b := ex.boundOf(x)
				if r := ex.rangeOf(x, 0); r.lo > b.lo || r.hi < b.hi {
					b = ival{max(b.lo, r.lo), min(b.hi, r.hi)}
				}
				if b.lo == v && v < maxI64 {
					b.lo++
					ex.bounds[x.id] = b
				} else if b.hi == v && v > minI64 {
					b.hi--
					ex.bounds[x.id] = b
				}
			}
		}
		return
	case "or":
		// x = K1 or x = K2 or ...  gives  min K <= x <= max K
		var x *Term
		lo, hi := int64(maxI64), int64(minI64)
		for _, d := range c.args {
			if d.op != "=" {
				return
			}
			a, k := d.args[0], d.args[1]
			if a.IsConst() {
				a, k = k, a
			}
			if !k.IsConst() || k.sort.K != SBV || k.sort.W != 64 || (x != nil && x != a) {
				return
			}
			x = a
			v := signExt(k.u, 64)
			lo, hi = min(lo, v), max(hi, v)
		}
		if x != nil {
			b := ex.boundOf(x)
			b.lo, b.hi = max(b.lo, lo), min(b.hi, hi)
			ex.bounds[x.id] = b
		}
		return
	case "bvslt", "bvsle", "bvsgt", "bvsge":
		ex.learnCmp(c.op, c.args[0], c.args[1])
	case "bvuge", "bvule":
		// wide (time) terms compared with constants that fit in int63
		x, k := c.args[0], c.args[1]
		if x.sort.K == SBV && x.sort.W > 64 && k.IsConst() && !x.IsConst() && k.UBig().IsInt64() {
			v := k.UBig().Int64()
			b := ex.boundOf(x)
			if _, seen := ex.bounds[x.id]; !seen {
				b = ival{0, maxI64}
			}
			if c.op == "bvuge" && v > b.lo {
				b.lo = v
			}
			if c.op == "bvule" && v < b.hi {
				b.hi = v
			}
			ex.bounds[x.id] = b
		}
	case "=":
		x, k := c.args[0], c.args[1]
		if x.IsConst() {
			x, k = k, x
		}
		if k.IsConst() && k.sort.K == SBV && k.sort.W == 64 {
			v := signExt(k.u, 64)
			ex.bounds[x.id] = ival{v, v}
		}
	}
}

func (ex *Exec) boundOf(x *Term) ival {
	if b, ok := ex.bounds[x.id]; ok {
		return b
	}
	return ival{minI64, maxI64}
}

func (ex *Exec) learnCmp(op string, a, b *Term) {
	if a.sort.K != SBV || a.sort.W != 64 {
		return
	}
	if a.IsConst() && !b.IsConst() {
		// K op x  ==  x op' K
		switch op {
		case "bvslt":
			op = "bvsgt"
		case "bvsle":
			op = "bvsge"
		case "bvsgt":
			op = "bvslt"
		case "bvsge":
			op = "bvsle"
		}
		a, b = b, a
	}
	if !b.IsConst() {
		// x op y with y having a known range
		rb := ex.rangeOf(b, 0)
		ra := ex.boundOf(a)
		switch op {
		case "bvslt":
			if rb.hi > minI64 && rb.hi-1 < ra.hi {
				ra.hi = rb.hi - 1
			}
		case "bvsle":
			if rb.hi < ra.hi {
				ra.hi = rb.hi
			}
		case "bvsgt":
			if rb.lo < maxI64 && rb.lo+1 > ra.lo {
				ra.lo = rb.lo + 1
			}
		case "bvsge":
			if rb.lo > ra.lo {
				ra.lo = rb.lo
			}
		}
		ex.bounds[a.id] = ra
		return
	}
	v := signExt(b.u, 64)
	r := ex.boundOf(a)
	switch op {
	case "bvslt":
		if v > minI64 && v-1 < r.hi {
			r.hi = v - 1
		}
	case "bvsle":
		if v < r.hi {
			r.hi = v
		}
	case "bvsgt":
		if v < maxI64 && v+1 > r.lo {
			r.lo = v + 1
		}
	case "bvsge":
		if v > r.lo {
			r.lo = v
		}
	}
	ex.bounds[a.id] = r
}

func addOv(a, b int64) (int64, bool) {
	c := a + b
	if (c > a) == (b > 0) {
		return c, true
	}
	return 0, false
}

// rangeOf computes a signed interval for a 64-bit term from learnt facts and structure.
func (ex *Exec) rangeOf(t *Term, depth int) ival {
	full := ival{minI64, maxI64}
	if t.sort.K != SBV {
		return full
	}
	if t.sort.W > 64 {
		return ex.rangeWide(t, depth)
	}
	if t.sort.W != 64 {
		return full
	}
	if t.IsConst() {
		v := signExt(t.u, 64)
		return ival{v, v}
	}
	if t.op == "extract" && t.p2 == 0 && t.p1 == 63 && t.args[0].sort.W > 64 {
		a := ex.rangeWide(t.args[0], depth+1)
		if a != full && a.lo >= 0 {
			if b, ok := ex.bounds[t.id]; ok {
				if b.lo > a.lo {
					a.lo = b.lo
				}
				if b.hi < a.hi {
					a.hi = b.hi
				}
			}
			return a
		}
	}
	r := full
	if depth < 12 {
		switch t.op {
		case "bvadd":
			a, b := ex.rangeOf(t.args[0], depth+1), ex.rangeOf(t.args[1], depth+1)
			lo, ok1 := addOv(a.lo, b.lo)
			hi, ok2 := addOv(a.hi, b.hi)
			if ok1 && ok2 && a != full && b != full {
				r = ival{lo, hi}
			}
		case "bvsub":
			a, b := ex.rangeOf(t.args[0], depth+1), ex.rangeOf(t.args[1], depth+1)
			if a != full && b != full && b.lo != minI64 && b.hi != minI64 {
				lo, ok1 := addOv(a.lo, -b.hi)
				hi, ok2 := addOv(a.hi, -b.lo)
				if ok1 && ok2 {
					r = ival{lo, hi}
					// relational facts of the path: a > b, a >= b
					x, y := t.args[0], t.args[1]
					if ex.known[ex.tc.SLt(y, x).id] || ex.known[ex.tc.SGt(x, y).id] {
						r.lo = max(r.lo, 1)
					} else if v, ok := ex.known[ex.tc.SLt(x, y).id]; ok && !v {
						r.lo = max(r.lo, 0)
					} else if v, ok := ex.known[ex.tc.SGt(y, x).id]; ok && !v {
						r.lo = max(r.lo, 0)
					}
				}
			}
		case "bvmul":
			a, b := ex.rangeOf(t.args[0], depth+1), ex.rangeOf(t.args[1], depth+1)
			if a.lo >= 0 && b.lo >= 0 && a.hi < 1<<31 && b.hi < 1<<31 {
				r = ival{a.lo * b.lo, a.hi * b.hi}
			}
		case "ite":
			a, b := ex.rangeOf(t.args[1], depth+1), ex.rangeOf(t.args[2], depth+1)
			r = ival{min(a.lo, b.lo), max(a.hi, b.hi)}
		case "bvsrem":
			a, b := ex.rangeOf(t.args[0], depth+1), ex.rangeOf(t.args[1], depth+1)
			if a.lo >= 0 && b.lo >= 1 {
				r = ival{0, min(a.hi, b.hi-1)}
			} else if b.lo >= 1 && b.hi < maxI64 {
				r = ival{-(b.hi - 1), b.hi - 1}
			}
		case "bvsdiv":
			a, b := ex.rangeOf(t.args[0], depth+1), ex.rangeOf(t.args[1], depth+1)
			if a.lo >= 0 && b.lo >= 1 {
				r = ival{0, a.hi}
			}
		case "bvneg":
			a := ex.rangeOf(t.args[0], depth+1)
			if a.lo != minI64 && a != full {
				r = ival{-a.hi, -a.lo}
			}
		case "zero_extend":
			w := t.args[0].sort.W
			if w < 63 {
				r = ival{0, int64(1)<<uint(w) - 1}
				in := t.args[0]
				if in.op == "bvurem" && in.args[1].IsConst() && !in.args[1].isZero() && in.args[1].u-1 < uint64(r.hi) {
					r.hi = int64(in.args[1].u - 1)
				}
				if (in.op == "bvurem" || in.op == "bvudiv") && in.args[0].op == "extract" && in.args[0].p2 == 0 && in.args[0].args[0].sort.W == 64 {
					// narrowed x%y, x/y: never above x
					if a := ex.rangeOf(in.args[0].args[0], depth+1); a.lo >= 0 && a.hi < r.hi {
						r.hi = a.hi
					}
				}
			}
		}
	}
	if b, ok := ex.bounds[t.id]; ok {
		if b.lo > r.lo {
			r.lo = b.lo
		}
		if b.hi < r.hi {
			r.hi = b.hi
		}
	}
	return r
}

func bitsFor(hi int64) int {
	k := 1
	for int64(1)<<uint(k) <= hi {
		k++
	}
	return k
}

// narrowDivRem returns a strength-reduced a/b or a%b when both operands are known to be
// non-negative and small (b >= 1); nil otherwise.
func (ex *Exec) narrowDivRem(rem bool, a, b *Term) *Term {
	if ex.job.NoNarrow || a.sort.W != 64 {
		return nil
	}
	ra, rb := ex.rangeOf(a, 0), ex.rangeOf(b, 0)
	if ra.lo < 0 || rb.lo < 1 || ra.hi >= 1<<44 || rb.hi >= 1<<44 {
		return nil
	}
	tc := ex.tc
	if rem && b.IsConst() && ra.lo > 0 {
		// a % d == (a - L) % d for L a multiple of d below the lower bound of a
		d := signExt(b.u, 64)
		L := ra.lo / d * d
		if L > 0 {
			a = tc.Sub(a, tc.Int64(L))
			ra = ival{ra.lo - L, ra.hi - L}
		}
	}
	k := bitsFor(max(ra.hi, rb.hi))
	an, bn := tc.Extract(a, k-1, 0), tc.Extract(b, k-1, 0)
	if rem {
		return tc.ZeroExt(tc.URem(an, bn), 64)
	}
	return tc.ZeroExt(tc.UDiv(an, bn), 64)
}

func (ex *Exec) narrowMul(a, b *Term) *Term {
	if ex.job.NoNarrow || a.sort.W != 64 || a.IsConst() || b.IsConst() {
		return nil
	}
	ra, rb := ex.rangeOf(a, 0), ex.rangeOf(b, 0)
	if ra.lo < 0 || rb.lo < 0 || ra.hi >= 1<<20 || rb.hi >= 1<<20 {
		return nil
	}
	k := bitsFor(ra.hi) + bitsFor(rb.hi)
	tc := ex.tc
	an, bn := tc.ZeroExt(tc.Extract(a, bitsFor(ra.hi)-1, 0), k), tc.ZeroExt(tc.Extract(b, bitsFor(rb.hi)-1, 0), k)
	return tc.ZeroExt(tc.Mul(an, bn), 64)
}

// to64 rewrites an 80-bit linear combination of sign-extended 64-bit terms into the same
// combination over 64 bits, provided interval analysis shows that no intermediate 64-bit
// operation overflows (so both computations denote the same integer).
func (ex *Exec) to64(t *Term) (*Term, bool) {
	tc := ex.tc
	if t.sort.W != timeW {
		return nil, false
	}
	var conv func(t *Term, d int) (*Term, bool)
	conv = func(t *Term, d int) (*Term, bool) {
		if d > 16 {
			return nil, false
		}
		if t.IsConst() {
			v := t.SBig()
			if v.IsInt64() {
				return tc.Int64(v.Int64()), true
			}
			return nil, false
		}
		switch t.op {
		case "sign_extend":
			if t.args[0].sort.W == 64 {
				return t.args[0], true
			}
		case "bvadd", "bvsub":
			a, ok1 := conv(t.args[0], d+1)
			b, ok2 := conv(t.args[1], d+1)
			if !ok1 || !ok2 {
				return nil, false
			}
			var r *Term
			if t.op == "bvadd" {
				r = tc.Add(a, b)
			} else {
				r = tc.Sub(a, b)
			}
			full := ival{minI64, maxI64}
			if r.IsConst() || ex.rangeOf(r, 0) != full {
				return r, true
			}
			return nil, false
		case "bvneg":
			a, ok := conv(t.args[0], d+1)
			if !ok {
				return nil, false
			}
			r := tc.Neg(a)
			if ex.rangeOf(r, 0) != (ival{minI64, maxI64}) {
				return r, true
			}
		case "ite":
			a, ok1 := conv(t.args[1], d+1)
			b, ok2 := conv(t.args[2], d+1)
			if ok1 && ok2 {
				return tc.Ite(t.args[0], a, b), true
			}
		}
		return nil, false
	}
	return conv(t, 0)
}

// rangeWide: interval of a wide (time) term, as a mathematical integer, when it is known
// to lie within [0, 2^62]; the full interval otherwise.
func (ex *Exec) rangeWide(t *Term, depth int) ival {
	full := ival{minI64, maxI64}
	ok := func(r ival) bool { return r != full && r.lo >= 0 && r.hi <= 1<<62 }
	if t.IsConst() {
		v := t.UBig()
		if v.IsInt64() && v.Int64() <= 1<<62 {
			return ival{v.Int64(), v.Int64()}
		}
		return full
	}
	r := full
	if depth < 12 {
		switch t.op {
		case "bvadd", "bvsub":
			a, b := ex.rangeWideS(t.args[0], depth+1), ex.rangeWideS(t.args[1], depth+1)
			if a != full && b != full {
				if t.op == "bvadd" {
					r = ival{a.lo + b.lo, a.hi + b.hi}
				} else {
					r = ival{a.lo - b.hi, a.hi - b.lo}
				}
			}
		case "ite":
			a, b := ex.rangeWide(t.args[1], depth+1), ex.rangeWide(t.args[2], depth+1)
			if a != full && b != full {
				r = ival{min(a.lo, b.lo), max(a.hi, b.hi)}
			}
		case "bvmul":
			a, b := ex.rangeWide(t.args[0], depth+1), ex.rangeWide(t.args[1], depth+1)
			if ok(a) && ok(b) && a.hi < 1<<31 && b.hi < 1<<31 {
				r = ival{a.lo * b.lo, a.hi * b.hi}
			}
		case "zero_extend":
			a := ex.rangeOf(t.args[0], depth+1)
			if a.lo >= 0 && a.hi <= 1<<62 {
				r = a
			}
		}
	}
	if b, okb := ex.bounds[t.id]; okb {
		if r == full {
			r = b
		} else {
			if b.lo > r.lo {
				r.lo = b.lo
			}
			if b.hi < r.hi {
				r.hi = b.hi
			}
		}
	}
	if !ok(r) {
		return full
	}
	return r
}

// rangeWideS: like rangeWide but also accepts sign-extended (possibly negative) small terms
func (ex *Exec) rangeWideS(t *Term, depth int) ival {
	full := ival{minI64, maxI64}
	if t.op == "sign_extend" && t.args[0].sort.W == 64 {
		a := ex.rangeOf(t.args[0], depth+1)
		if a != full && a.lo > -(1<<61) && a.hi < 1<<61 {
			return a
		}
		return full
	}
	if t.IsConst() {
		v := t.SBig()
		if v.IsInt64() && v.Int64() > -(1<<61) && v.Int64() < 1<<61 {
			return ival{v.Int64(), v.Int64()}
		}
	}
	if t.op == "ite" {
		a, b := ex.rangeWideS(t.args[1], depth+1), ex.rangeWideS(t.args[2], depth+1)
		if a != full && b != full {
			return ival{min(a.lo, b.lo), max(a.hi, b.hi)}
		}
	}
	return ex.rangeWide(t, depth)
}

// rangeDecide tries to decide a comparison from interval facts alone.
func (ex *Exec) rangeDecide(c *Term) (bool, bool) {
	switch c.op {
	case "not":
		v, ok := ex.rangeDecide(c.args[0])
		return !v, ok
	case "and":
		all := true
		for _, a := range c.args {
			v, ok := ex.rangeDecide(a)
			if ok && !v {
				return false, true
			}
			if !ok {
				all = false
			}
		}
		if all {
			return true, true
		}
		return false, false
	case "or":
		all := true
		for _, a := range c.args {
			v, ok := ex.rangeDecide(a)
			if ok && v {
				return true, true
			}
			if !ok {
				all = false
			}
		}
		if all {
			return false, true
		}
		return false, false
	case "bvslt", "bvsle", "bvsgt", "bvsge", "=":
		if c.args[0].sort.K != SBV || c.args[0].sort.W != 64 {
			return false, false
		}
		full := ival{minI64, maxI64}
		a, b := ex.rangeOf(c.args[0], 0), ex.rangeOf(c.args[1], 0)
		if a == full && b == full {
			return false, false
		}
		switch c.op {
		case "bvslt":
			if a.hi < b.lo {
				return true, true
			}
			if a.lo >= b.hi {
				return false, true
			}
		case "bvsle":
			if a.hi <= b.lo {
				return true, true
			}
			if a.lo > b.hi {
				return false, true
			}
		case "bvsgt":
			if a.lo > b.hi {
				return true, true
			}
			if a.hi <= b.lo {
				return false, true
			}
		case "bvsge":
			if a.lo >= b.hi {
				return true, true
			}
			if a.hi < b.lo {
				return false, true
			}
		case "=":
			if a.hi < b.lo || b.hi < a.lo {
				return false, true
			}
			if a.lo == a.hi && b.lo == b.hi && a.lo == b.lo {
				return true, true
			}
		}
	}
	return false, false
}
