package collections

import (
	"github.com/vulcand/oxy/v2/internal/holsterv4/clock"
)

var vfKeys = []string{"A", "B", "C", "D"}

// consistency of the TTL map representation (index fields, key<->element bijection); the
// ordering of the queue itself is checked behaviourally by the eviction clause
func vfWellFormed(m *TTLMap) bool {
	h := *m.expiryTimes.impl
	ok := len(h) == len(m.elements)
	for i, it := range h {
		ok = verifAnd(ok, it.index == i)
		el, isEl := it.Value.(*mapElement)
		ok = verifAnd(ok, isEl)
		if isEl {
			cur, present := m.elements[el.key]
			ok = verifAnd(ok, verifAnd(present, cur == el))
			ok = verifAnd(ok, el.heapEl == it)
		}
	}
	return ok
}

// C14-O3 (and O2): a full map built through the API with symbolic ttls and instants; then
// Set of a new key (eviction) or of an existing key (update).
func VerifC14Evict() {
	c := verifParam("capacity")
	verifClockInit("t0")
	m := NewTTLMap(c)
	exp := make([]int, c)
	for i := 0; i < c; i++ {
		_ = verifAdvance(verifName("adv", i), 5)
		ttl := verifInt(verifName("ttl", i))
		verifAssume(verifAnd(ttl >= 1, ttl <= 20))
		err := m.Set(vfKeys[i], i+100, ttl)
		verifAssert("set-ok", err == nil)
		exp[i] = int(clock.Now().Unix()) + ttl
	}
	verifAssert("built-well-formed", vfWellFormed(m))
	_ = verifAdvance("advN", 25)
	now := int(clock.Now().Unix())
	ttlN := verifInt("ttlN")
	verifAssume(verifAnd(ttlN >= 1, ttlN <= 20))
	if verifBool("update") {
		// O2 frame: re-setting an existing key (renewing its ttl) changes only that key
		v := verifConcretize(verifInt("victim"), 0, c-1)
		verifAssume(verifInt("victim") == v)
		ttlU := verifInt("ttlU")
		verifAssume(verifAnd(ttlU >= 1, ttlU <= 20))
		err := m.Set(vfKeys[v], 999, ttlU)
		verifAssert("set-ok", err == nil)
		verifAssert("update-keeps-size", len(m.elements) == c)
		exp[v] = now + ttlU
		for i := 0; i < c; i++ {
			el, ok := m.elements[vfKeys[i]]
			verifAssert("update-keeps-all-keys", ok)
			if ok && i != v {
				verifAssert("update-frame", verifAnd(el.value == i+100, el.heapEl.Priority == exp[i]))
			}
			if ok && i == v {
				verifAssert("update-applied", verifAnd(el.value == 999, el.heapEl.Priority == exp[v]))
			}
		}
		verifAssert("well-formed-after-update", vfWellFormed(m))
		_ = verifAdvance("advM", 5)
		now = int(clock.Now().Unix())
	}
	{
		err := m.Set(vfKeys[c], 999, ttlN)
		verifAssert("set-ok", err == nil)
		verifAssert("evict-keeps-size", len(m.elements) == c)
		el, ok := m.elements[vfKeys[c]]
		verifAssert("new-key-present", verifAnd(ok, el != nil))
		gone := 0
		anyExpired := false
		minExp := exp[0]
		for i := 0; i < c; i++ {
			anyExpired = verifOr(anyExpired, exp[i] <= now)
			minExp = verifIteInt(exp[i] < minExp, exp[i], minExp)
		}
		for i := 0; i < c; i++ {
			e, ok := m.elements[vfKeys[i]]
			if !ok {
				gone++
				// the forgotten entry: an expired one if any exists, else the one nearest to expiry
				verifAssert("evicts-expired-or-nearest-expiry", verifIteBool(anyExpired, exp[i] <= now, exp[i] == minExp))
			} else {
				verifAssert("evict-frame", e.heapEl.Priority == exp[i])
			}
		}
		verifAssert("evicts-exactly-one", gone == 1)
	}
	verifAssert("still-well-formed", vfWellFormed(m))
	verifAssert("locks-released", verifLocksHeld() <= 0)
	verifReach("end")
}

// C09: TTL map public methods under concurrency.
func VerifC09TTLMap() {
	verifClockInit("t0")
	m := NewTTLMap(2)
	_ = m.Set("A", 1, 5)
	_ = m.Set("B", 2, 9)
	verifShared(m)
	verifRacePair("Set|Get", func() { _ = m.Set("A", 3, 5) }, func() { _, _ = m.Get("B") })
	verifRacePair("Set(new)|Set(new)", func() { _ = m.Set("C", 3, 5) }, func() { _ = m.Set("D", 3, 5) })
	verifRacePair("Get|Get", func() { _, _ = m.Get("A") }, func() { _, _ = m.Get("B") })
	verifRacePair("Increment|Len", func() { _, _ = m.Increment("A", 1, 5) }, func() { _ = m.Len() })
	_ = verifAdvance("adv", 20)
	verifRacePair("Get(expired)|Get(expired)", func() { _, _ = m.Get("A") }, func() { _, _ = m.Get("A") })
	verifReach("end")
}
