package buffer

import (
	"errors"
	"net/http"
	"net/url"

	"github.com/vulcand/oxy/v2/utils"
	"github.com/vulcand/predicate"
)

var vfDef predicate.Def

func vfCaptureDef() {
	if verifSymbolic() {
		verifStub("github.com/vulcand/predicate.NewParser", func(d predicate.Def) (predicate.Parser, error) {
			vfDef = d
			return nil, errors.New("table captured")
		})
		_, _ = parseExpression("Attempts() < 2")
	} else {
		vfDef = predicate.Def{
			Operators: predicate.Operators{AND: and, OR: or, EQ: eq, NEQ: neq, LT: lt, GT: gt, LE: le, GE: ge},
			Functions: map[string]interface{}{"RequestMethod": requestMethod, "IsNetworkError": isNetworkError, "Attempts": attempts, "ResponseCode": responseCode},
		}
	}
}

// C07-O2a: the retry expression is read with standard boolean and comparison semantics over
// attempt count, response code and request method (operator table captured as built).
func VerifC07Expr() {
	vfCaptureDef()
	att := verifInt("attempt")
	code := verifInt("responseCode")
	verifAssume(verifAnd(att >= 1, att <= 12))
	verifAssume(verifAnd(code >= 0, code <= 999))
	ci := verifInt("const")
	verifAssume(verifAnd(ci >= -1, ci <= 1000))
	mi := verifConcretize(verifInt("method"), 0, 2)
	method := []string{"GET", "POST", "HEAD"}[mi]
	ctx := &context{r: &http.Request{Method: method}, attempt: att, responseCode: code}
	fns := vfDef.Functions
	attF := fns["Attempts"].(func() toInt)()
	codeF := fns["ResponseCode"].(func() toInt)()
	methF := fns["RequestMethod"].(func() toString)()
	netF := fns["IsNetworkError"].(func() hpredicate)()
	verifAssert("is-network-error", netF(ctx) == verifOr(code == 502, code == 504))
	ref := func(op string, x, c int) bool {
		switch op {
		case "EQ":
			return x == c
		case "NEQ":
			return x != c
		case "LT":
			return x < c
		case "LE":
			return x <= c
		case "GT":
			return x > c
		}
		return x >= c
	}
	ops := []struct {
		name string
		f    interface{}
	}{{"EQ", vfDef.Operators.EQ}, {"NEQ", vfDef.Operators.NEQ}, {"LT", vfDef.Operators.LT}, {"LE", vfDef.Operators.LE}, {"GT", vfDef.Operators.GT}, {"GE", vfDef.Operators.GE}}
	var atoms []hpredicate
	var refs []bool
	for _, o := range ops {
		f, ok := o.f.(func(interface{}, interface{}) (hpredicate, error))
		verifAssert("operator-present", ok)
		if !ok {
			verifStop()
		}
		p1, e1 := f(attF, ci)
		p2, e2 := f(codeF, ci)
		verifAssert("operator-builds", verifAnd(e1 == nil, e2 == nil))
		verifAssert("compare-attempts", p1(ctx) == ref(o.name, att, ci))
		verifAssert("compare-response-code", p2(ctx) == ref(o.name, code, ci))
		atoms = append(atoms, p1, p2)
		refs = append(refs, ref(o.name, att, ci), ref(o.name, code, ci))
	}
	eqF := vfDef.Operators.EQ.(func(interface{}, interface{}) (hpredicate, error))
	neqF := vfDef.Operators.NEQ.(func(interface{}, interface{}) (hpredicate, error))
	pm, em := eqF(methF, "POST")
	pn, en := neqF(methF, "POST")
	verifAssert("method-compare", verifAnd(verifAnd(em == nil, en == nil), verifAnd(pm(ctx) == (method == "POST"), pn(ctx) == (method != "POST"))))
	andF, okA := vfDef.Operators.AND.(func(...hpredicate) hpredicate)
	orF, okO := vfDef.Operators.OR.(func(...hpredicate) hpredicate)
	verifAssert("and-or-present", verifAnd(okA, okO))
	if okA && okO {
		for i := 0; i < len(atoms); i++ {
			for j := i + 1; j < len(atoms); j += 3 {
				verifAssert("and-semantics", andF(atoms[i], atoms[j])(ctx) == verifAnd(refs[i], refs[j]))
				verifAssert("or-semantics", orF(atoms[i], atoms[j])(ctx) == verifOr(refs[i], refs[j]))
			}
		}
		verifAssert("nested-semantics", orF(andF(atoms[0], atoms[3]), netF)(ctx) == verifOr(verifAnd(refs[0], refs[3]), verifOr(code == 502, code == 504)))
	}
	verifReach("end")
}

// C07-O2b: the retry loop. The handler is invoked again exactly after each attempt for which
// the (real) retry expression is true, judged on the status the attempt produced (200 when it
// chose none), and never more than 11 times.
type vfCodes struct {
	codes []int // status per attempt; 0 = the handler does not call WriteHeader
	calls int
}

func (h *vfCodes) ServeHTTP(w http.ResponseWriter, r *http.Request) {
	c := h.codes[len(h.codes)-1]
	if h.calls < len(h.codes) {
		c = h.codes[h.calls]
	}
	h.calls++
	if c != 0 {
		w.WriteHeader(c)
	}
	_, _ = w.Write([]byte("x"))
}

func VerifC07Loop() {
	vfCaptureDef()
	codeF := vfDef.Functions["ResponseCode"].(func() toInt)()
	attF := vfDef.Functions["Attempts"].(func() toInt)()
	neqF := vfDef.Operators.NEQ.(func(interface{}, interface{}) (hpredicate, error))
	ltF := vfDef.Operators.LT.(func(interface{}, interface{}) (hpredicate, error))
	andF := vfDef.Operators.AND.(func(...hpredicate) hpredicate)
	limit := verifConcretize(verifInt("limit"), 2, 13)
	verifAssume(verifInt("limit") == limit)
	p1, _ := neqF(codeF, 200)
	p2, _ := ltF(attF, limit)
	// retry while  ResponseCode() != 200 && Attempts() < limit
	h := &vfCodes{}
	for i := 0; i < 3; i++ {
		cs := verifConcretize(verifInt(verifName("code", i)), 0, 2)
		verifAssume(verifInt(verifName("code", i)) == cs)
		h.codes = append(h.codes, []int{0, 200, 502}[cs])
	}
	b := &Buffer{next: h, errHandler: errHandler, log: &utils.NoopLogger{}, retryPredicate: andF(p1, p2),
		maxRequestBodyBytes: -1, memRequestBodyBytes: 8, maxResponseBodyBytes: -1, memResponseBodyBytes: 8}
	rec := &verifRecorder{}
	b.ServeHTTP(rec, &http.Request{Method: "GET", URL: &url.URL{Path: "/"}, Header: http.Header{}, Body: &vfBody{chunk: 1}})
	// reference: attempt a (1-based) produced status s_a (200 if it chose none)
	want := 0
	for a := 1; a <= 11; a++ {
		want = a
		s := h.codes[len(h.codes)-1]
		if a-1 < len(h.codes) {
			s = h.codes[a-1]
		}
		if s == 0 {
			s = 200
		}
		if !(s != 200 && a < limit) {
			break
		}
	}
	verifAssert("invocations-follow-retry-expression", h.calls == want)
	verifAssert("never-more-than-11-invocations", h.calls <= 11)
	verifAssert("one-response", len(rec.Codes) == 1)
	verifReach("end")
}
