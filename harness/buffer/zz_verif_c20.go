package buffer

import (
	"net/http"
	"net/url"
)

func VerifC20T() {
	req := &http.Request{Method: "GET", URL: &url.URL{Path: "/"}, Header: http.Header{}, Body: &vfBody{data: nil, chunk: 1}}
	verifTransparent(func(next http.Handler) http.Handler {
		b, err := New(next)
		verifAssert("new-ok", err == nil)
		return b
	}, req, true)
	verifAssert("no-temp-file-left", verifFilesLeft() == 0)
	verifReach("end")
}
