package buffer

import (
	"io"
	"net/http"
	"net/url"
	"strings"

	"github.com/vulcand/oxy/v2/utils"
)

// client body: delivers `data` in reads of at most `chunk` bytes
type vfBody struct {
	data   []byte
	pos    int
	chunk  int
	closed int
}

func (b *vfBody) Read(p []byte) (int, error) {
	if b.pos >= len(b.data) {
		return 0, io.EOF
	}
	n := len(p)
	if n > b.chunk {
		n = b.chunk
	}
	if n > len(b.data)-b.pos {
		n = len(b.data) - b.pos
	}
	copy(p, b.data[b.pos:b.pos+n])
	b.pos += n
	return n, nil
}
func (b *vfBody) Close() error { b.closed++; return nil }

var vfPayload = []byte("abcdefghij")

// what the protected handler saw / did on each attempt
type vfAttempt struct {
	method   string
	url      url.URL
	urlPtr   *url.URL
	hdrX     string
	hdrN     int
	cl       int64
	te       int
	body     string
	reqPtr   *http.Request
	wrote    string
	code     int
	explicit bool
}

type vfHandler struct {
	fixedResponse bool
	fixedRead     bool
	attempts      []vfAttempt
	maxResp       int   // length of the response body pool to draw writes from
	respLimit     int64 // the buffer\'s response limit (0 or less: none)
}

func (h *vfHandler) ServeHTTP(w http.ResponseWriter, r *http.Request) {
	id := len(h.attempts)
	a := vfAttempt{method: r.Method, url: *r.URL, urlPtr: r.URL, hdrX: r.Header.Get("X-Orig"), hdrN: len(r.Header), cl: r.ContentLength, te: len(r.TransferEncoding), reqPtr: r}
	// read a symbolic prefix of the body, or all of it
	if h.fixedRead || verifBool(verifName("readAll", id)) {
		data, _ := io.ReadAll(r.Body)
		a.body = string(data)
	} else {
		buf := make([]byte, 2)
		n, _ := io.ReadFull(r.Body, buf) // a short Read is legal: keep reading up to 2 bytes
		a.body = "prefix:" + string(buf[:n])
	}
	// scribble on what we were handed
	r.URL.Path = "/mutated"
	if vs := r.Header["X-Orig"]; len(vs) > 0 {
		vs[0] = "scribbled" // in place: the value slice itself must be the attempt's own
	}
	r.Header.Set("X-Orig", "mutated")
	r.Header.Add("X-Added", "1")
	if r.Method != "HEAD" { // (the buffer decides "no body for HEAD" on the request it handed out)
		r.Method = "PATCH"
	}
	// respond
	w.Header().Set("X-Attempt", verifName("a", id))
	// a header only this attempt sets (a failing backend's Retry-After, ...), and one every
	// attempt adds a value to
	w.Header().Set(verifName("X-Only-", id), "1")
	w.Header().Add("X-Trace", verifName("t", id))
	if h.fixedResponse {
		// request-side variant: the response is not the subject
		a.code, a.explicit, a.wrote = 200, true, "ok"
		w.WriteHeader(200)
		_, _ = w.Write([]byte("ok"))
		h.attempts = append(h.attempts, a)
		return
	}
	codeSel := verifInt(verifName("code", id))
	verifAssume(verifAnd(codeSel >= 0, codeSel <= 3+verifParam("wide")))
	switch verifConcretize(codeSel, 0, 4) {
	case 0: // no explicit status
	case 1:
		a.code, a.explicit = 200, true
	case 2:
		a.code, a.explicit = 502, true
	case 3:
		a.code, a.explicit = 204, true
	case 4:
		a.code, a.explicit = 404, true
	}
	if a.explicit {
		w.WriteHeader(a.code)
	}
	nw := verifInt(verifName("writes", id))
	verifAssume(verifAnd(nw >= 0, nw <= 2))
	nw = verifConcretize(nw, 0, 2)
	for k := 0; k < nw; k++ {
		l := verifInt(verifName(verifName("wlen", id)+"_", k))
		if verifParam("wide") == 1 {
			verifAssume(verifOr(verifOr(l == 0, l == 1), l == 3))
		} else {
			verifAssume(verifOr(l == 0, l == 3))
		}
		l = verifConcretize(l, 0, 3)
		chunk := string(vfPayload[k*3 : k*3+l])
		var werr error
		wn := int64(0)
		if id == 0 && verifBool("viaCopy") { // the first attempt streams all it writes
			// streaming handlers (http.ServeContent, ...) hand the writer to io.Copy
			wn, werr = io.Copy(w, io.LimitReader(strings.NewReader(chunk), int64(len(chunk))))
		} else {
			n, err := w.Write([]byte(chunk))
			wn, werr = int64(n), err
		}
		// a write is accepted in full; it may only be refused once the response is over its limit
		over := h.respLimit > 0 && int64(len(a.wrote)+len(chunk)) > h.respLimit
		verifAssert("handler-write-accepted", verifOr(verifAnd(werr == nil, wn == int64(len(chunk))), over))
		a.wrote += chunk
	}
	h.attempts = append(h.attempts, a)
}

// C06 + C07 + C15: one request through the real Buffer.ServeHTTP with real multibuf.
func VerifBufferServe() {
	L := verifParam("L")       // request body length (concrete per job; contents fixed)
	mode := verifParam("mode") // 0: request side varies, 1: response side varies
	h := &vfHandler{fixedResponse: mode == 0, fixedRead: mode == 1}
	b := &Buffer{next: h, errHandler: errHandler, log: &utils.NoopLogger{}}
	b.maxRequestBodyBytes = verifInt64("maxReq")
	b.memRequestBodyBytes = verifInt64("memReq")
	b.maxResponseBodyBytes = verifInt64("maxResp")
	b.memResponseBodyBytes = verifInt64("memResp")
	// thresholds range over the values around the sizes in play: below / equal / above,
	// and "unlimited" (request size L; response sizes 0..6)
	l64 := int64(L)
	verifAssume(vfOneOf(b.maxRequestBodyBytes, -1, l64-1, l64, l64+1))
	verifAssume(verifAnd(b.maxRequestBodyBytes != 0, b.maxRequestBodyBytes >= -1))
	verifAssume(vfOneOf(b.memRequestBodyBytes, 1, l64-1, l64, l64+1))
	verifAssume(b.memRequestBodyBytes >= 1)
	if verifParam("wide") == 1 {
		verifAssume(vfOneOf(b.maxResponseBodyBytes, -1, 1, 3, 4))
		verifAssume(vfOneOf(b.memResponseBodyBytes, 1, 2, 3, 7))
	} else {
		verifAssume(vfOneOf(b.maxResponseBodyBytes, -1, 3, 3, 4))
		verifAssume(vfOneOf(b.memResponseBodyBytes, 1, 1, 7, 7))
	}
	if mode == 0 {
		verifAssume(verifAnd(b.maxResponseBodyBytes == -1, b.memResponseBodyBytes == 7))
	} else {
		verifAssume(verifAnd(b.maxRequestBodyBytes == -1, b.memRequestBodyBytes == 1))
	}
	if mode == 0 {
		// the debugging option dumps the request before anything else happens; it must be
		// an observer only (the JSON encoder itself is reflection code: stubbed under the engine)
		b.verbose = verifBool("verbose")
		verifStub("encoding/json.Marshal", func(v any) ([]byte, error) { return []byte("{}"), nil })
	}
	h.respLimit = b.maxResponseBodyBytes
	// work partition
	part := verifParam("part")
	verifAssume(verifBool("head") == (part&1 != 0))
	verifAssume(verifBool("chunked") == (part&2 != 0))
	retries := verifParam("retries")
	if retries > 0 {
		// the retry decision is an arbitrary predicate of the attempt (C07-O2 owns the grammar)
		b.retryPredicate = func(c *context) bool {
			return verifBool(verifName("retry", c.attempt)) && c.attempt <= retries
		}
	}
	chunk := 3
	if mode == 0 {
		chunk = verifConcretize(verifInt("chunk"), 1, 3)
	}
	body := &vfBody{data: vfPayload[:L], chunk: chunk}
	chunked := verifBool("chunked")
	req := &http.Request{Method: "POST", URL: &url.URL{Scheme: "http", Host: "h", Path: "/p", RawQuery: "q=1"}, Header: http.Header{"X-Orig": {"v"}, "Content-Type": {"application/x-www-form-urlencoded"}}, Body: body, ContentLength: int64(L)}
	if chunked {
		req.ContentLength = -1
		req.TransferEncoding = []string{"chunked"}
	}
	if verifBool("head") {
		req.Method = "HEAD"
	}
	method0 := req.Method
	rec := &verifRecorder{}

	b.ServeHTTP(rec, req)

	overReq := verifAnd(b.maxRequestBodyBytes > 0, int64(L) > b.maxRequestBodyBytes)
	// ---- C15 (a): request over the maximum: 413, handler never invoked (declared or chunked)
	if overReq {
		verifAssert("over-limit-request-not-forwarded", len(h.attempts) == 0)
		verifAssert("over-limit-request-413", verifAnd(len(rec.Codes) == 1, rec.code(0) == http.StatusRequestEntityTooLarge))
	} else {
		verifAssert("request-within-limit-forwarded", len(h.attempts) >= 1)
	}
	// ---- C15 (c): no temporary file left, no open handle
	verifAssert("no-temp-file-left", verifFilesLeft() == 0)
	// (open descriptors of already unlinked files are reclaimed by os.File finalizers and are
	// not part of the property)
	// ---- C06: every attempt saw the pristine request with the full body from byte 0
	for i, a := range h.attempts {
		verifAssert("attempt-method", a.method == method0)
		verifAssert("attempt-url", verifAnd(verifAnd(a.url.Path == "/p", a.url.RawQuery == "q=1"), verifAnd(a.url.Host == "h", a.url.Scheme == "http")))
		verifAssert("attempt-url-not-aliased", a.urlPtr != req.URL)
		verifAssert("attempt-headers", verifAnd(a.hdrX == "v", a.hdrN == 2))
		verifAssert("attempt-content-length", a.cl == int64(L))
		verifAssert("attempt-no-transfer-encoding", a.te == 0)
		if len(a.body) >= 7 && a.body[:7] == "prefix:" {
			want := string(vfPayload[:L])
			if len(want) > 2 {
				want = want[:2]
			}
			verifAssert("attempt-body-from-first-byte", a.body[7:] == want)
		} else {
			verifAssert("attempt-body-exact", a.body == string(vfPayload[:L]))
		}
		verifAssert("attempt-request-distinct", a.reqPtr != req)
		for j := 0; j < i; j++ {
			verifAssert("attempts-do-not-share-url", a.urlPtr != h.attempts[j].urlPtr)
		}
	}
	// the client's own request object is untouched
	verifAssert("original-request-untouched", verifAnd(verifAnd(req.Method == method0, req.URL.Path == "/p"), verifAnd(req.Header.Get("X-Orig") == "v", len(req.Header) == 2)))
	// ---- C07: exactly one response, the final attempt's
	verifAssert("handler-invocations-bounded", len(h.attempts) <= retries+1)
	if len(h.attempts) > 0 {
		last := h.attempts[len(h.attempts)-1]
		overResp := verifAnd(b.maxResponseBodyBytes > 0, int64(len(last.wrote)) > b.maxResponseBodyBytes)
		verifAssert("exactly-one-status", len(rec.Codes) == 1)
		got := ""
		for _, s := range rec.Bodies {
			got += s
		}
		if overResp {
			// C15 (b): response over the maximum: error status, none of its bytes reach the client
			verifAssert("over-limit-response-error-status", rec.code(0) >= 500)
			verifAssert("over-limit-response-bytes-withheld", got != last.wrote || last.wrote == "")
		} else if anyOver(h, b.maxResponseBodyBytes) {
			// an earlier attempt overflowed: error path, nothing asserted on the content
		} else {
			wantCode := 200
			if last.explicit {
				wantCode = last.code
			}
			verifAssert("final-status", rec.code(0) == wantCode)
			verifAssert("final-headers", rec.Header().Get("X-Attempt") == verifName("a", len(h.attempts)-1))
			// ... and nothing a discarded attempt set: exactly the final attempt's header set
			lastID := len(h.attempts) - 1
			tr := rec.Header()["X-Trace"]
			verifAssert("final-headers-only", verifAnd(verifAnd(len(tr) == 1, rec.Header().Get("X-Trace") == verifName("t", lastID)), rec.Header().Get(verifName("X-Only-", lastID)) == "1"))
			for id := 0; id < lastID; id++ {
				verifAssert("discarded-attempt-headers-dropped", rec.Header().Get(verifName("X-Only-", id)) == "")
			}
			wantBody := last.wrote
			if method0 == "HEAD" || wantCode == 204 {
				wantBody = ""
			}
			verifAssert("final-body", got == wantBody)
		}
	}
	verifReach("end")
}

func vfOneOf(x int64, a, b, c, d int64) bool {
	return verifOr(verifOr(x == a, x == b), verifOr(x == c, x == d))
}

func anyOver(h *vfHandler, max int64) bool {
	r := false
	for _, a := range h.attempts {
		r = verifOr(r, verifAnd(max > 0, int64(len(a.wrote)) > max))
	}
	return r
}
