package connlimit

import (
	"net/http"

	"github.com/vulcand/oxy/v2/utils"
)

type vfNop struct{}

func (vfNop) ServeHTTP(w http.ResponseWriter, r *http.Request) { w.WriteHeader(200) }

func VerifC09ConnLimiter() {
	ext := utils.ExtractorFunc(func(req *http.Request) (string, int64, error) { return req.Host, 1, nil })
	cl, err := New(vfNop{}, ext, 1)
	verifAssert("new-ok", err == nil)
	verifShared(cl)
	a := func() { cl.ServeHTTP(&verifRecorder{}, &http.Request{Host: "A", Header: http.Header{}}) }
	b := func() { cl.ServeHTTP(&verifRecorder{}, &http.Request{Host: "B", Header: http.Header{}}) }
	verifRacePair("ServeHTTP(A)|ServeHTTP(A)", a, a)
	verifRacePair("ServeHTTP(A)|ServeHTTP(B)", a, b)
	verifReach("end")
}
