package connlimit

import (
	"net/http"
	"sync"

	"github.com/vulcand/oxy/v2/utils"
)

var vfToks = []string{"A", "B", "C"}

// C04-O1: one acquire/release from an arbitrary state satisfying
//   connections[s] = in-flight(s) in [0,max] (absent <=> 0), total = sum.
func VerifC04Step() {
	max := verifInt64("max")
	verifAssume(verifAnd(max >= 0, max < 1<<31))
	cl := &ConnLimiter{mutex: &sync.Mutex{}, maxConnections: max, connections: map[string]int64{}, log: &utils.NoopLogger{}}
	var f [3]int64
	total := int64(0)
	for i := 0; i < 3; i++ {
		f[i] = verifInt64(verifName("f", i))
		verifAssume(verifAnd(f[i] >= 0, f[i] <= max))
		if f[i] > 0 {
			cl.connections[vfToks[i]] = f[i]
		}
		total += f[i]
	}
	cl.totalConnections = total
	s := verifConcretize(verifInt("s"), 0, 2)
	tok := vfToks[s]
	if verifBool("release") {
		verifAssume(f[s] >= 1)
		cl.release(tok, 1)
		v, ok := cl.connections[tok]
		verifAssert("release-decrements", v == f[s]-1)
		verifAssert("release-deletes-zero", ok == (f[s] > 1))
		verifAssert("release-total", cl.totalConnections == total-1)
	} else {
		err := cl.acquire(tok, 1)
		admitted := err == nil
		verifAssert("admit-iff-below-max", admitted == (f[s] < max))
		v, ok := cl.connections[tok]
		if admitted {
			verifAssert("acquire-increments", verifAnd(v == f[s]+1, ok))
			verifAssert("acquire-total", cl.totalConnections == total+1)
		} else {
			_, isMax := err.(*MaxConnError)
			verifAssert("reject-is-maxconn", isMax)
			verifAssert("reject-unchanged", verifAnd(v == f[s], ok == (f[s] > 0)))
			verifAssert("reject-total", cl.totalConnections == total)
		}
	}
	for i := 0; i < 3; i++ {
		if i != s {
			v, ok := cl.connections[vfToks[i]]
			verifAssert("others-untouched", verifAnd(v == f[i], ok == (f[i] > 0)))
		}
	}
	verifAssert("lock-released", verifLocksHeld() <= 0)
	verifReach("end")
}

// C04-O2: real ServeHTTP, overlapping (nested) requests, handlers that return or panic.
type vfNext struct {
	cl       *ConnLimiter
	max      int64
	inflight map[string]int64
	calls    int
	depth    int
	maxDepth int
	entered  int
}

func (n *vfNext) ServeHTTP(w http.ResponseWriter, r *http.Request) {
	id := n.calls
	n.calls++
	n.entered++
	src := r.Host
	n.inflight[src]++
	verifAssert("inflight-within-max", n.inflight[src] <= n.max)
	n.depth++
	defer func() { // ghost bookkeeping must also happen when a nested request's panic unwinds us
		n.depth--
		n.inflight[src]--
	}()
	if n.depth < n.maxDepth && verifBool(verifName("nest", id)) {
		vfRequest(n.cl, n, verifName("src", id))
	}
	if verifBool(verifName("panic", id)) {
		// what a handler may panic with: anything, including the value net/http itself uses to
		// abort a response (ReverseProxy panics with it when the copy to the client fails)
		pk := verifInt("panicKind") // one kind per history
		verifAssume(verifAnd(pk >= 0, pk <= 2))
		switch verifConcretize(pk, 0, 2) {
		case 0:
			panic("handler aborted")
		case 1:
			panic(http.ErrAbortHandler)
		default:
			panic(vfPanicErr{})
		}
	}
}

type vfPanicErr struct{}

func (vfPanicErr) Error() string { return "handler failed" }

func vfRequest(cl *ConnLimiter, n *vfNext, srcName string) {
	s := verifConcretize(verifInt(srcName), 0, 1)
	req := &http.Request{Host: vfToks[s], Header: http.Header{}}
	rec := &verifRecorder{}
	before := n.entered
	had := n.inflight[vfToks[s]]
	cl.ServeHTTP(rec, req)
	if n.entered == before {
		// rejected: 429 written exactly once, and only because the source was at its maximum
		verifAssert("reject-429", verifAnd(len(rec.Codes) == 1, rec.code(0) == http.StatusTooManyRequests))
		verifAssert("reject-only-at-max", had >= n.max)
	} else {
		verifAssert("admit-only-below-max", had < n.max)
	}
}

func VerifC04Serve() {
	max := verifInt64("max")
	verifAssume(verifAnd(max >= 0, max < 1<<31))
	n := &vfNext{max: max, inflight: map[string]int64{}, maxDepth: verifParam("depth")}
	ext := utils.ExtractorFunc(func(req *http.Request) (string, int64, error) { return req.Host, 1, nil })
	cl, err := New(n, ext, max)
	verifAssert("new-ok", err == nil)
	n.cl = cl
	for k := 0; k < verifParam("top"); k++ {
		func() {
			defer func() {
				_ = recover() // like net/http's server: a panicking handler ends only its request
			}()
			vfRequest(cl, n, verifName("top", k))
		}()
		// all requests of this tree have finished: every slot must have been returned
		verifAssert("slots-returned", verifAnd(len(cl.connections) == 0, cl.totalConnections == 0))
		verifAssert("lock-released", verifLocksHeld() <= 0)
	}
	verifReach("end")
}

// C04-O3: the admission decision and the count are one step. Two arrivals of one source that
// has max-1 requests in flight, the second running to completion at any lock boundary of the
// first: exactly one is admitted and the count says so (no check-then-add window).
func VerifC04Atomic() {
	max := int64(verifConcretize(verifInt("max"), 1, 3))
	ok := verifConcurrent("arrivals", 200000, func() (func(), func(), func() bool) {
		cl := &ConnLimiter{mutex: &sync.Mutex{}, maxConnections: max, connections: map[string]int64{}, log: &utils.NoopLogger{}}
		if max > 1 {
			cl.connections["A"] = max - 1
		}
		cl.totalConnections = max - 1
		var ea, eb error
		return func() { ea = cl.acquire("A", 1) }, func() { eb = cl.acquire("A", 1) }, func() bool {
			admitted := int64(0)
			if ea == nil {
				admitted++
			}
			if eb == nil {
				admitted++
			}
			return admitted == 1 && cl.connections["A"] == max && cl.totalConnections == max
		}
	})
	verifAssert("concurrent-arrivals-admit-exactly-one", ok)
	verifAssert("lock-released", verifLocksHeld() <= 0)
	verifReach("end")
}
