package connlimit

import (
	"net/http"
	"net/url"

	"github.com/vulcand/oxy/v2/utils"
)

func VerifC20T() {
	ext := utils.ExtractorFunc(func(req *http.Request) (string, int64, error) { return "A", 1, nil })
	verifTransparent(func(next http.Handler) http.Handler {
		cl, err := New(next, ext, 1)
		verifAssert("new-ok", err == nil)
		return cl
	}, &http.Request{Method: "GET", URL: &url.URL{Path: "/"}, Header: http.Header{}}, false)
	// decisive when it intervenes: limit 0 -> one complete 429, handler not invoked
	sc := &verifScript{}
	cl, _ := New(sc, ext, 0)
	rec := &verifRecorderFH{}
	cl.ServeHTTP(rec, &http.Request{Method: "GET", URL: &url.URL{Path: "/"}, Header: http.Header{}})
	verifAssert("intervention-skips-handler", sc.Calls == 0)
	verifAssert("intervention-one-response", verifAnd(len(rec.Codes) == 1, rec.code(0) == http.StatusTooManyRequests))
	verifReach("end")
}
