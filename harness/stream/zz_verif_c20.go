package stream

import (
	"net/http"
	"net/url"
)

func VerifC20T() {
	verifTransparent(func(next http.Handler) http.Handler {
		s, err := New(next)
		verifAssert("new-ok", err == nil)
		return s
	}, &http.Request{Method: "GET", URL: &url.URL{Path: "/"}, Header: http.Header{}}, false)
	verifReach("end")
}
