package memmetrics

import (
	"time"

	"github.com/vulcand/oxy/v2/internal/holsterv4/clock"
)

// C09: RTMetrics under concurrent Record / inspection / Reset (lockset analysis per pair).
func VerifC09Metrics() {
	clock.Freeze(time.Unix(1700000000, 0))
	verifStub("github.com/vulcand/oxy/v2/memmetrics.NewRollingHDRHistogram", func(low, high int64, sig int, period time.Duration, n int, opts []any) (*RollingHDRHistogram, error) {
		return &RollingHDRHistogram{}, nil
	})
	verifStub("(*github.com/vulcand/oxy/v2/memmetrics.RollingHDRHistogram).RecordLatencies", func(h *RollingHDRHistogram, d time.Duration, n int64) error { return nil })
	verifStub("(*github.com/vulcand/oxy/v2/memmetrics.RollingHDRHistogram).Reset", func(h *RollingHDRHistogram) {})
	verifStub("(*github.com/vulcand/oxy/v2/memmetrics.RollingHDRHistogram).Export", func(h *RollingHDRHistogram) *RollingHDRHistogram { return &RollingHDRHistogram{} })
	m, err := NewRTMetrics()
	verifAssert("metrics-ok", err == nil)
	m.Record(200, time.Millisecond)
	m.Record(502, time.Millisecond)
	verifShared(m)
	rec := func() { m.Record(502, time.Millisecond) }
	verifRacePair("Record|Record", rec, rec)
	verifRacePair("Record|NetworkErrorRatio", rec, func() { _ = m.NetworkErrorRatio() })
	verifRacePair("Record|ResponseCodeRatio", rec, func() { _ = m.ResponseCodeRatio(500, 600, 0, 600) })
	verifRacePair("Record|TotalCount", rec, func() { _ = m.TotalCount() })
	verifRacePair("Record|NetworkErrorCount", rec, func() { _ = m.NetworkErrorCount() })
	verifRacePair("Record|StatusCodesCounts", rec, func() { _ = m.StatusCodesCounts() })
	verifRacePair("Record|Export", rec, func() { _ = m.Export() })
	verifRacePair("Record|Reset", rec, func() { m.Reset() })
	verifRacePair("NetworkErrorRatio|Reset", func() { _ = m.NetworkErrorRatio() }, func() { m.Reset() })
	verifRacePair("Record(new code)|Record(new code)", func() { m.Record(404, time.Millisecond) }, func() { m.Record(500, time.Millisecond) })
	// inspection after an idle gap: Count() expires old buckets, i.e. it writes
	clock.Advance(3 * time.Second)
	ratio := func() { _ = m.ResponseCodeRatio(500, 600, 0, 600) }
	verifRacePair("idle:ResponseCodeRatio|ResponseCodeRatio", ratio, ratio)
	clock.Advance(3 * time.Second)
	verifRacePair("idle:StatusCodesCounts|ResponseCodeRatio", func() { _ = m.StatusCodesCounts() }, ratio)
	clock.Advance(3 * time.Second)
	verifRacePair("idle:NetworkErrorRatio|TotalCount", func() { _ = m.NetworkErrorRatio() }, func() { _ = m.TotalCount() })
	clock.Advance(3 * time.Second)
	verifRacePair("idle:Export|ResponseCodeRatio", func() { _ = m.Export() }, ratio)
	// every inspection call against itself after an idle gap
	insp := []struct {
		name string
		f    func()
	}{
		{"StatusCodesCounts", func() { _ = m.StatusCodesCounts() }},
		{"ResponseCodeRatio", ratio},
		{"NetworkErrorRatio", func() { _ = m.NetworkErrorRatio() }},
		{"TotalCount", func() { _ = m.TotalCount() }},
		{"NetworkErrorCount", func() { _ = m.NetworkErrorCount() }},
		{"Export", func() { _ = m.Export() }},
	}
	for i := range insp {
		for j := i; j < len(insp); j++ {
			clock.Advance(3 * time.Second)
			m.Record(200, time.Millisecond)
			m.Record(502, time.Millisecond)
			clock.Advance(2 * time.Second)
			verifRacePair("idle:"+insp[i].name+"|"+insp[j].name, insp[i].f, insp[j].f)
		}
	}
	verifReach("end")
}

// C09: no counter update is lost — two Record calls interleaved at any lock boundary.
func VerifC09NoLostUpdate() {
	clock.Freeze(time.Unix(1700000000, 0))
	verifStub("github.com/vulcand/oxy/v2/memmetrics.NewRollingHDRHistogram", func(low, high int64, sig int, period time.Duration, n int, opts []any) (*RollingHDRHistogram, error) {
		return &RollingHDRHistogram{}, nil
	})
	verifStub("(*github.com/vulcand/oxy/v2/memmetrics.RollingHDRHistogram).RecordLatencies", func(h *RollingHDRHistogram, d time.Duration, n int64) error { return nil })
	// the counter builder is user-supplied code (RTCounter option): a recorder may be held up
	// inside it while another recorder runs
	m, err := NewRTMetrics(RTCounter(func() (*RollingCounter, error) {
		verifYield()
		return NewCounter(counterBuckets, counterResolution)
	}))
	verifAssert("metrics-ok", err == nil)
	m.Record(200, time.Millisecond)
	codeA := []int{200, 502, 404}[verifConcretize(verifInt("codeA"), 0, 2)]
	codeB := []int{200, 502, 404}[verifConcretize(verifInt("codeB"), 0, 2)]
	verifInterleave("records", func() { m.Record(codeA, time.Millisecond) }, func() { m.Record(codeB, time.Millisecond) })
	verifAssert("no-lost-total", m.TotalCount() == 3)
	netErrs := int64(0)
	if codeA == 502 {
		netErrs++
	}
	if codeB == 502 {
		netErrs++
	}
	verifAssert("no-lost-network-errors", m.NetworkErrorCount() == netErrs)
	sum := int64(0)
	for _, c := range m.StatusCodesCounts() {
		sum += c
	}
	verifAssert("no-lost-status-codes", sum == 3)
	verifReach("end")
}
