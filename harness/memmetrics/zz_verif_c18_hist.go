package memmetrics

import (
	"time"

	"github.com/vulcand/oxy/v2/internal/holsterv4/clock"
)

// C18-O6: tripping clears the latency window too. The rolling latency histogram is a ring of
// HDR histograms; the HDR tables themselves are library code outside the claim and are
// replaced by a ghost sample count per table (stubs of the wrapper's leaf methods
// NewHDRHistogram / Reset / RecordValues / Merge). k latencies are recorded, a rotation period passing or not before each (symbolic; with
// k > buckets the ring index is anywhere and the ring has wrapped); then the histogram is reset, directly or through RTMetrics.Reset (what a
// trip calls): the merged window holds no sample, and a latency recorded afterwards is the
// only one in it.
func VerifC18HistReset() {
	k := verifParam("k")
	n := verifParam("buckets")
	clock.Freeze(time.Unix(1700000000, 0)) // the ring position depends on elapsed periods only
	counts := map[*HDRHistogram]int64{}
	verifStub("github.com/vulcand/oxy/v2/memmetrics.NewHDRHistogram", func(low, high int64, sig int) (*HDRHistogram, error) {
		return &HDRHistogram{low: low, high: high, sigfigs: sig}, nil
	})
	verifStub("(*github.com/vulcand/oxy/v2/memmetrics.HDRHistogram).Reset", func(h *HDRHistogram) { counts[h] = 0 })
	verifStub("(*github.com/vulcand/oxy/v2/memmetrics.HDRHistogram).RecordValues", func(h *HDRHistogram, v, c int64) error { counts[h] += c; return nil })
	verifStub("(*github.com/vulcand/oxy/v2/memmetrics.HDRHistogram).Merge", func(h *HDRHistogram, o *HDRHistogram) error { counts[h] += counts[o]; return nil })
	total := func(h *HDRHistogram) int64 {
		if verifSymbolic() {
			return counts[h]
		}
		return h.h.TotalCount()
	}
	period := 10 * time.Second
	var rh *RollingHDRHistogram
	var m *RTMetrics
	var err error
	if verifBool("throughMetrics") {
		m, err = NewRTMetrics(RTHistogram(func() (*RollingHDRHistogram, error) {
			return NewRollingHDRHistogram(1, 3600000000, 2, period, n)
		}))
		verifAssert("metrics-ok", err == nil)
		rh = m.histogram
	} else {
		rh, err = NewRollingHDRHistogram(1, 3600000000, 2, period, n)
		verifAssert("histogram-ok", err == nil)
	}
	record := func() {
		if m != nil {
			m.Record(200, 5*time.Millisecond)
		} else {
			verifAssert("record-ok", rh.RecordLatencies(5*time.Millisecond, 1) == nil)
		}
	}
	for i := 0; i < k; i++ {
		// a rotation period may pass before the record (the ring moves on by one table then)
		if verifBool(verifName("idle", i)) {
			clock.Advance(period)
		}
		record()
	}
	if m != nil {
		m.Reset()
	} else {
		rh.Reset()
	}
	mg, err := rh.Merged()
	verifAssert("merged-ok", err == nil)
	verifAssert("reset-clears-the-latency-window", total(mg) == 0)
	record()
	mg, err = rh.Merged()
	verifAssert("merged-ok", err == nil)
	verifAssert("only-samples-since-the-reset-count", total(mg) == 1)
	verifReach("end")
}
