package memmetrics

import (
	"time"
)

// C18-O2: the metrics the condition reads reflect exactly the responses recorded since the
// last reset (k records within one counter slot; histories crossing slots are C17's subject).
func VerifC18Metrics() {
	k := verifParam("k")
	verifClockInit("t0")
	verifStub("github.com/vulcand/oxy/v2/memmetrics.NewRollingHDRHistogram", func(low, high int64, sig int, period time.Duration, n int, opts []any) (*RollingHDRHistogram, error) {
		return &RollingHDRHistogram{}, nil
	})
	verifStub("(*github.com/vulcand/oxy/v2/memmetrics.RollingHDRHistogram).RecordLatencies", func(h *RollingHDRHistogram, d time.Duration, n int64) error { return nil })
	verifStub("(*github.com/vulcand/oxy/v2/memmetrics.RollingHDRHistogram).Reset", func(h *RollingHDRHistogram) {})
	m, err := NewRTMetrics()
	verifAssert("metrics-ok", err == nil)
	nNet, n5xx, n4xx, total := 0, 0, 0, 0
	for i := 0; i < k; i++ {
		code := verifInt(verifName("code", i))
		verifAssume(verifAnd(code >= 100, code <= 599))
		m.Record(code, time.Duration(verifInt64(verifName("lat", i))))
		total++
		if code == 502 || code == 504 {
			nNet++
		}
		if code >= 500 {
			n5xx++
		}
		if code >= 400 && code < 500 {
			n4xx++
		}
	}
	want := float64(0)
	if total > 0 {
		want = float64(nNet) / float64(total)
	}
	verifAssert("network-error-ratio", m.NetworkErrorRatio() == want)
	want5 := float64(0)
	if total > 0 {
		want5 = float64(n5xx) / float64(total)
	}
	verifAssert("response-code-ratio-5xx", m.ResponseCodeRatio(500, 600, 0, 600) == want5)
	want4 := float64(0)
	if n5xx > 0 {
		want4 = float64(n4xx) / float64(n5xx)
	}
	verifAssert("response-code-ratio-4xx-over-5xx", m.ResponseCodeRatio(400, 500, 500, 600) == want4)
	verifAssert("total-count", m.TotalCount() == int64(total))
	// tripping clears the metrics: stale failures cannot trip the breaker again
	m.Reset()
	verifAssert("reset-clears", verifAnd(verifAnd(m.NetworkErrorRatio() == 0, m.ResponseCodeRatio(500, 600, 0, 600) == 0), m.TotalCount() == 0))
	verifReach("end")
}
