package memmetrics

import (
	"time"

	"github.com/vulcand/oxy/v2/internal/holsterv4/clock"
)

// C17-O1: bounded histories of Inc / Count / Reset on a fresh counter, symbolic clock.
// Resolution = the engine's time grid (concrete per job), N concrete per job; the start
// instant, every clock advance (sub-resolution steps and multi-window gaps) and every
// increment are symbolic. At each Count():
//   sum{v_i : now - t_i < (N-1)*r}  <=  Count()  <=  sum{v_i : now - t_i < N*r}
func VerifC17Window() {
	N := verifParam("N")
	k := verifParam("k")
	r := time.Duration(verifGrid())
	verifClockInit("t0")
	c, err := NewCounter(N, r)
	verifAssert("new-ok", err == nil)
	ts := make([]time.Time, 0, k)
	vs := make([]int64, 0, k)
	counts := 0
	for step := 0; step < k; step++ {
		_ = verifAdvance(verifName("adv", step), 3*N+2)
		opv := verifInt(verifName("op", step))
		verifAssume(verifAnd(opv >= 0, opv <= 2))
		op := verifConcretize(opv, 0, 2)
		switch op {
		case 0:
			v := verifInt(verifName("v", step))
			verifAssume(verifAnd(v >= 0, v < 1<<20))
			c.Inc(v)
			ts = append(ts, clock.Now().UTC())
			vs = append(vs, int64(v))
		case 1:
			got := c.Count()
			now := clock.Now().UTC()
			lo, hi := int64(0), int64(0)
			for j := range ts {
				d := now.Sub(ts[j])
				lo += verifIteI64(d < time.Duration(N-1)*r, vs[j], 0)
				hi += verifIteI64(d < time.Duration(N)*r, vs[j], 0)
			}
			verifAssert("count-at-least-recent", got >= lo)
			verifAssert("count-at-most-window", got <= hi)
			counts++
		case 2:
			c.Reset()
			ts, vs = ts[:0], vs[:0]
		}
	}
	if counts > 0 {
		verifReach("end")
	}
}

// C17 ratio: RatioCounter.Ratio() is a/(a+b) of the two window counts and 0 when empty.
func VerifC17Ratio() {
	N := verifParam("N")
	k := verifParam("k")
	r := time.Duration(verifGrid())
	verifClockInit("t0")
	rc, err := NewRatioCounter(N, r)
	verifAssert("new-ok", err == nil)
	for step := 0; step < k; step++ {
		_ = verifAdvance(verifName("adv", step), 3*N+2)
		v := verifInt(verifName("v", step))
		verifAssume(verifAnd(v >= 0, v < 1<<20))
		if verifBool(verifName("isA", step)) {
			rc.IncA(v)
		} else {
			rc.IncB(v)
		}
	}
	_ = verifAdvance("advR", 3*N+2)
	a, b := rc.a.Count(), rc.b.Count()
	got := rc.Ratio()
	want := verifIteF64(a+b == 0, 0, float64(a)/float64(a+b))
	verifAssert("ratio", got == want)
	verifReach("end")
}
