package ratelimit

import "time"

// C13 (API level, no private fields): a bucket set that also sees the rejected requests
// must behave exactly like a twin that sees the admitted ones and a zero-amount request (clock observation only) in place of each rejected one — rejected requests
// cost nothing in any bucket, for every history of amounts and gaps.
func VerifC13Twin() {
	k := verifParam("k")
	verifClockInit("t0")
	rates := NewRateSet()
	verifAssert("rates-ok", verifAnd(rates.Add(time.Second, 2, 3) == nil, rates.Add(time.Minute, 10, 10) == nil))
	a := NewTokenBucketSet(rates)
	b := NewTokenBucketSet(rates)
	for i := 0; i < k; i++ {
		_ = verifAdvance(verifName("gap", i), 3000000000)
		amount := verifInt64(verifName("amount", i))
		verifAssume(verifAnd(amount >= 1, amount <= 4))
		da, ea := a.Consume(amount)
		if ea == nil && da == 0 {
			db, eb := b.Consume(amount)
			verifAssert("twin-admits-what-was-admitted", verifAnd(eb == nil, db == 0))
		} else {
			// the twin only observes the clock at the same instant (a request of amount 0):
			// refill bookkeeping is identical, nothing is asked for
			_, _ = b.Consume(0)
		}
	}
	_ = verifAdvance("gapN", 3000000000)
	amount := verifInt64("amountN")
	verifAssume(verifAnd(amount >= 1, amount <= 3))
	da, ea := a.Consume(amount)
	db, eb := b.Consume(amount)
	verifAssert("rejected-requests-cost-nothing", verifAnd((ea == nil) == (eb == nil), da == db))
	verifReach("end")
}
