package ratelimit

import (
	"time"

	"github.com/vulcand/oxy/v2/internal/holsterv4/clock"
)

var vfAverages = []int64{1, 2, 3, 7, 10, 1000}

// C13-O7 (API level, no private fields): the statement's unit is period/average, not the
// bucket's cached nanoseconds-per-token. A set built from the rate (period, average, burst)
// through NewRateSet/NewTokenBucketSet (or brought to that rate by Update from another rate of
// the same period) is drained; after staying idle for any D with D*average >= burst*period
// — i.e. D >= burst x (period/average) read as a rational — a request for the whole burst is
// admitted; and a rejected request of amount <= burst that is retried after the advertised
// delay is admitted. period from {1 s, 1 min}, average from a list that includes values
// that do not divide the period (3, 7), burst symbolic.
func VerifC13RateUnit() {
	verifClockInit("t0")
	per := []time.Duration{time.Second, time.Minute}[verifParam("period")]
	ai := verifInt("averageIdx")
	verifAssume(verifAnd(ai >= 0, ai < len(vfAverages)))
	avg := vfAverages[verifConcretize(ai, 0, len(vfAverages)-1)]
	burst := verifInt64("burst")
	verifAssume(verifAnd(burst >= 1, burst <= 1<<10))
	rates := NewRateSet()
	var tbs *TokenBucketSet
	if verifBool("viaUpdate") {
		// start from another rate of the same period and reconfigure
		oi := verifInt("oldAverageIdx")
		verifAssume(verifAnd(oi >= 0, oi < len(vfAverages)))
		old := NewRateSet()
		verifAssert("rates-ok", old.Add(per, vfAverages[verifConcretize(oi, 0, len(vfAverages)-1)], burst) == nil)
		tbs = NewTokenBucketSet(old)
		verifAssert("rates-ok", rates.Add(per, avg, burst) == nil)
		tbs.Update(rates)
	} else {
		verifAssert("rates-ok", rates.Add(per, avg, burst) == nil)
		tbs = NewTokenBucketSet(rates)
	}
	d, err := tbs.Consume(burst)
	verifAssert("fresh-set-admits-its-burst", verifAnd(err == nil, d == 0))
	// a partial request right away is rejected with a delay; retried after it, it is admitted
	amount := verifInt64("amount")
	verifAssume(verifAnd(amount >= 1, amount <= burst))
	if verifBool("retry") {
		d, err = tbs.Consume(amount)
		verifAssert("drained-set-rejects-with-delay", verifAnd(err == nil, d > 0))
		verifAssert("advertised-delay-at-most-amount-x-period/average", int64(d)*avg <= amount*int64(per))
		extra := verifInt64("extra")
		verifAssume(verifAnd(extra >= 0, extra <= 1<<40))
		clock.Advance(d + time.Duration(extra))
		d, err = tbs.Consume(amount)
		verifAssert("retry-after-advertised-delay-admitted", verifAnd(err == nil, d == 0))
		verifReach("retried")
	} else {
		idle := verifInt64("idle")
		verifAssume(verifAnd(idle >= 0, idle <= 1<<50))
		verifAssume(idle*avg >= burst*int64(per)) // idle >= burst x (period/average)
		clock.Advance(time.Duration(idle))
		d, err = tbs.Consume(burst)
		verifAssert("idle-source-regains-full-burst", verifAnd(err == nil, d == 0))
		verifReach("idled")
	}
	verifReach("end")
}
