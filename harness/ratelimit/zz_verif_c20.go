package ratelimit

import (
	"net/http"
	"net/url"
	"time"

	"github.com/vulcand/oxy/v2/internal/holsterv4/clock"
)

func VerifC20T() {
	clock.Freeze(time.Unix(1700000000, 0))
	vfAmount = 1
	req := &http.Request{Method: "GET", Host: "A", URL: &url.URL{Path: "/"}, Header: http.Header{}}
	verifTransparent(func(next http.Handler) http.Handler {
		return vfNewLimiter(next, time.Second, 1, 1, 4)
	}, req, false)
	// decisive: second request of the same instant is over the rate
	sc := &verifScript{}
	tl := vfNewLimiter(sc, time.Second, 1, 1, 4)
	tl.ServeHTTP(&verifRecorderFH{}, req)
	rec := &verifRecorderFH{}
	tl.ServeHTTP(rec, req)
	verifAssert("intervention-skips-handler", sc.Calls == 1)
	verifAssert("intervention-one-response", verifAnd(len(rec.Codes) == 1, rec.code(0) == http.StatusTooManyRequests))
	verifReach("end")
}
