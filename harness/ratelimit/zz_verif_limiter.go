package ratelimit

import (
	"net/http"
	"time"

	"github.com/vulcand/oxy/v2/internal/holsterv4/clock"
	"github.com/vulcand/oxy/v2/utils"
)

var vfSources = []string{"A", "B", "C", "D"}
var vfAmount int64

type vfOK struct{ calls int }

func (h *vfOK) ServeHTTP(w http.ResponseWriter, r *http.Request) {
	h.calls++
	w.WriteHeader(http.StatusOK)
}

func vfNewLimiter(next http.Handler, period time.Duration, average, burst int64, capacity int) *TokenLimiter {
	rates := NewRateSet()
	err := rates.Add(period, average, burst)
	verifAssert("rate-ok", err == nil)
	ext := utils.ExtractorFunc(func(req *http.Request) (string, int64, error) { return req.Host, vfAmount, nil })
	tl, err := New(next, ext, rates, Capacity(capacity))
	verifAssert("limiter-ok", err == nil)
	return tl
}

// vfSend sends one request of `amount` from source s; returns whether it was admitted.
func vfSend(tl *TokenLimiter, next *vfOK, s int, amount int64) bool {
	vfAmount = amount
	rec := &verifRecorder{}
	before := next.calls
	tl.ServeHTTP(rec, &http.Request{Host: vfSources[s], Header: http.Header{}})
	admitted := next.calls == before+1
	if admitted {
		verifAssert("admitted-relays-handler-status", verifAnd(len(rec.Codes) == 1, rec.code(0) == http.StatusOK))
	} else {
		verifAssert("rejected-is-429-with-retry-header", verifAnd(verifAnd(len(rec.Codes) == 1, rec.code(0) == http.StatusTooManyRequests), rec.Header().Get("X-Retry-In") != ""))
	}
	return admitted
}

// C03-O3: sliding windows through the real limiter (TTL map, bucket set, bucket).
// One source, k requests with symbolic amounts separated by symbolic gaps (sub-second
// steps up to gaps longer than the entry lifetime); for every pair i<=j the amount admitted
// in (t_i, t_j] plus the request at t_i obeys  admitted*period <= (burst+1)*period + (t_j-t_i)*average.
func VerifC03Windows() {
	k := verifParam("k")
	average := int64(verifParam("average"))
	burst := int64(verifParam("burst"))
	period := time.Second
	verifClockInit("t0")
	next := &vfOK{}
	tl := vfNewLimiter(next, period, average, burst, 4)
	adm := make([]int64, k) // admitted amount at step i
	at := make([]time.Time, k)
	for i := 0; i < k; i++ {
		if i > 0 {
			_ = verifAdvance(verifName("gap", i), verifParam("maxgap"))
		}
		amount := verifInt64(verifName("amount", i))
		verifAssume(verifAnd(amount >= 1, amount <= burst))
		at[i] = clock.Now().UTC()
		if vfSend(tl, next, 0, amount) {
			adm[i] = amount
		}
	}
	for i := 0; i < k; i++ {
		sum := int64(0)
		for j := i; j < k; j++ {
			sum += adm[j]
			T := int64(at[j].Sub(at[i]))
			verifAssert("window-bound", sum*int64(period) <= (burst+1)*int64(period)+T*average)
		}
	}
	verifReach("end")
}

// C14-O1: non-interference by self-composition. Run 1: k requests from sources drawn
// symbolically from `nsrc` sources (capacity >= nsrc); run 2: only source A's requests at
// the same instants on a fresh limiter. A's decisions must be identical.
func VerifC14SelfComp() {
	k := verifParam("k")
	nsrc := verifParam("nsrc")
	average := int64(verifParam("average"))
	burst := int64(verifParam("burst"))
	t0 := verifClockInit("t0")
	next := &vfOK{}
	tl := vfNewLimiter(next, time.Second, average, burst, verifParam("capacity"))
	src := make([]int, k)
	amt := make([]int64, k)
	gap := make([]time.Duration, k)
	dec := make([]bool, k)
	for i := 0; i < k; i++ {
		gap[i] = verifAdvance(verifName("gap", i), verifParam("maxgap"))
		if pat := verifParam("srcpat"); pat >= 0 && nsrc == 2 {
			src[i] = pat >> uint(i) & 1 // one job per pattern of sources
		} else {
			sv := verifInt(verifName("src", i))
			verifAssume(verifAnd(sv >= 0, sv < nsrc))
			src[i] = verifConcretize(sv, 0, nsrc-1)
		}
		amt[i] = verifInt64(verifName("amount", i))
		verifAssume(verifAnd(amt[i] >= 1, amt[i] <= burst))
		dec[i] = vfSend(tl, next, src[i], amt[i])
	}
	// run 2: source A alone
	clock.Freeze(t0)
	next2 := &vfOK{}
	tl2 := vfNewLimiter(next2, time.Second, average, burst, verifParam("capacity"))
	for i := 0; i < k; i++ {
		clock.Advance(gap[i])
		if src[i] == 0 {
			d2 := vfSend(tl2, next2, 0, amt[i])
			verifAssert("decision-independent-of-other-sources", d2 == dec[i])
		}
	}
	verifReach("end")
}

// C14-O1 (lock-step form): two limiters created at the same instant share one clock
// history. Limiter 1 sees k requests from sources drawn symbolically from `nsrc` sources
// (capacity >= nsrc); limiter 2 sees only source A's requests, at the same instants with the
// same amounts. A's decisions must be identical in both, its buckets must hold the same
// state afterwards, and nobody else's request may be reflected in limiter 2.
func VerifC14LockStep() {
	k := verifParam("k")
	nsrc := verifParam("nsrc")
	average := int64(verifParam("average"))
	burst := int64(verifParam("burst"))
	verifClockInit("t0")
	next := &vfOK{}
	tl := vfNewLimiter(next, time.Second, average, burst, verifParam("capacity"))
	next2 := &vfOK{}
	tl2 := vfNewLimiter(next2, time.Second, average, burst, verifParam("capacity"))
	seenA := false
	for i := 0; i < k; i++ {
		_ = verifAdvance(verifName("gap", i), verifParam("maxgap"))
		var src int
		if pat := verifParam("srcpat"); pat >= 0 && nsrc == 2 {
			src = pat >> uint(i) & 1 // one job per pattern of sources
		} else {
			sv := verifInt(verifName("src", i))
			verifAssume(verifAnd(sv >= 0, sv < nsrc))
			src = verifConcretize(sv, 0, nsrc-1)
		}
		amt := verifInt64(verifName("amount", i))
		verifAssume(verifAnd(amt >= 1, amt <= burst+1)) // burst+1: also requests larger than the burst
		if src != 0 {
			vfAmount = amt
			tl.ServeHTTP(&verifRecorder{}, &http.Request{Host: vfSources[src], Header: http.Header{}})
			continue
		}
		seenA = true
		vfAmount = amt
		rec1 := &verifRecorder{}
		b1 := next.calls
		tl.ServeHTTP(rec1, &http.Request{Host: vfSources[0], Header: http.Header{}})
		vfAmount = amt
		rec2 := &verifRecorder{}
		b2 := next2.calls
		tl2.ServeHTTP(rec2, &http.Request{Host: vfSources[0], Header: http.Header{}})
		verifAssert("decision-independent-of-other-sources", (next.calls == b1+1) == (next2.calls == b2+1))
		verifAssert("response-independent-of-other-sources", verifAnd(verifAnd(len(rec1.Codes) == 1, len(rec2.Codes) == 1), verifAnd(rec1.code(0) == rec2.code(0), rec1.Header().Get("X-Retry-In") == rec2.Header().Get("X-Retry-In"))))
	}
	if seenA {
		verifReach("a-seen")
	}
	verifReach("end")
}
