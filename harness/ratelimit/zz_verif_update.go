package ratelimit

import (
	"time"
)

// C03-O4: reconfiguration keeps what it does not change. A set holding any subset of
// {1s, 1min} buckets in arbitrary invariant-satisfying states is brought in line with a rate
// set holding any subset of those periods (not empty), each rate either the bucket's own or a
// different one. Afterwards the set has exactly the periods of the rate set; a bucket whose
// rate is unchanged is in the same state (no refill: the rate bound of C03
// spans reconfigurations of the other rates); a bucket whose rate changed keeps its refresh
// instant and at most its tokens; a new bucket starts full.
func VerifC03Update() {
	now0 := verifClockInit("now0")
	periods := []time.Duration{time.Second, time.Minute}
	tbs := &TokenBucketSet{buckets: map[time.Duration]*tokenBucket{}}
	rates := NewRateSet()
	var old [2]*tokenBucket
	var snap [2]tokenBucket
	var inRates, same [2]bool
	var nAvg, nBurst [2]int64
	n := 0
	for i, per := range periods {
		if verifBool(verifName("has", i)) {
			b, _, _ := vfBucket(verifName("b", i)+".", now0)
			b.period = per
			avg := verifInt64(verifName("avg", i))
			verifAssume(verifAnd(avg >= 1, avg <= 1000))
			b.timePerToken = time.Duration(int64(per) / avg)
			tbs.buckets[per] = b
			tbs.maxPeriod = per
			old[i], snap[i] = b, *b
			nAvg[i], nBurst[i] = avg, b.burst
			same[i] = true
		}
		if verifBool(verifName("rate", i)) {
			inRates[i] = true
			n++
			if old[i] == nil || verifBool(verifName("changed", i)) {
				same[i] = false
				nAvg[i] = verifInt64(verifName("newAvg", i))
				verifAssume(verifAnd(nAvg[i] >= 1, nAvg[i] <= 1000))
				nBurst[i] = verifInt64(verifName("newBurst", i))
				verifAssume(verifAnd(nBurst[i] >= 1, nBurst[i] <= 1<<20))
			}
			verifAssert("rate-ok", rates.Add(per, nAvg[i], nBurst[i]) == nil)
		}
	}
	if n == 0 {
		verifStop()
	}

	tbs.Update(rates)

	verifAssert("set-has-exactly-the-configured-periods", len(tbs.buckets) == n)
	maxP := time.Duration(0)
	for i, per := range periods {
		b, ok := tbs.buckets[per]
		verifAssert("bucket-present-iff-rate-configured", ok == inRates[i])
		if !ok || !inRates[i] {
			continue
		}
		maxP = per
		verifAssert("bucket-rate", verifAnd(verifAnd(b.period == per, b.burst == nBurst[i]), int64(b.timePerToken) == int64(per)/nAvg[i]))
		switch {
		case old[i] == nil:
			verifAssert("new-bucket-starts-full", verifAnd(b.availableTokens == nBurst[i], b.lastConsumed == 0))
		case same[i]:
			verifAssert("unchanged-rate-keeps-state", verifAnd(verifAnd(b.availableTokens == snap[i].availableTokens, b.lastRefresh.Equal(snap[i].lastRefresh)), b.lastConsumed == snap[i].lastConsumed))
		default:
			verifAssert("changed-rate-never-adds-tokens", verifAnd(b.availableTokens <= snap[i].availableTokens, b.availableTokens <= nBurst[i]))
			verifAssert("changed-rate-keeps-refresh-instant", b.lastRefresh.Equal(snap[i].lastRefresh))
			verifAssert("changed-rate-keeps-tokens-up-to-burst", verifOr(b.availableTokens == snap[i].availableTokens, b.availableTokens == nBurst[i]))
		}
	}
	verifAssert("max-period", tbs.maxPeriod == maxP)
	verifReach("end")
}
