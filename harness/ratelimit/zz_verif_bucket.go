package ratelimit

import (
	"time"

	"github.com/vulcand/oxy/v2/internal/holsterv4/clock"
)

// vfBucket builds an arbitrary token bucket satisfying the representation invariant
//   0 <= avail <= burst,  lastRefresh <= now,  now - lastRefresh < timePerToken
// (true of a fresh bucket; preserved by every consume: VerifC03Potential asserts it).
func vfBucket(tag string, now0 time.Time) (tb *tokenBucket, tpt, age int64) {
	tb = &tokenBucket{}
	// timePerToken: a concrete job parameter (list of representative rates), or fully
	// symbolic when the parameter is 0 (decided only for some obligations, see DESIGN)
	tpt = int64(verifParam("tpt"))
	if tpt == 0 {
		tpt = verifInt64(tag + "tpt")
		verifAssume(verifAnd(tpt >= 1, tpt <= 1<<36))
	}
	tb.timePerToken = time.Duration(tpt)
	tb.period = time.Duration(verifInt64(tag + "period"))
	tb.burst = verifInt64(tag + "burst")
	verifAssume(verifAnd(tb.burst >= 1, tb.burst <= 1<<20))
	tb.availableTokens = verifInt64(tag + "avail")
	verifAssume(verifAnd(tb.availableTokens >= 0, tb.availableTokens <= tb.burst))
	age = verifInt64(tag + "age")
	verifAssume(verifAnd(age >= 0, age < tpt))
	tb.lastRefresh = now0.Add(-time.Duration(age))
	tb.lastConsumed = verifInt64(tag + "lastConsumed")
	verifAssume(verifAnd(tb.lastConsumed >= 0, tb.lastConsumed <= 1<<21))
	return
}

// C03-O1: potential lemma. With PHI = avail*tpt + (now-lastRefresh):
//   PHI' + admitted*tpt <= PHI + gap    and the invariant is preserved.
// Telescoping over any interval of length T gives admitted < burst + 1 + T/tpt.
func VerifC03Potential() {
	now0 := verifClockInit("now0")
	tb, tpt, age := vfBucket("b.", now0)
	burst, avail := tb.burst, tb.availableTokens
	gap := int64(verifAdvance("gap", 1<<44))
	tokens := verifInt64("tokens")
	verifAssume(verifAnd(tokens >= 0, tokens <= 1<<21))
	phi0 := avail*tpt + age

	delay, err := tb.consume(tokens)

	age1 := int64(clock.Now().UTC().Sub(tb.lastRefresh))
	phi1 := tb.availableTokens*tpt + age1
	admitted := verifIteI64(verifAnd(err == nil, delay == 0), tokens, 0)
	verifAssert("inv-avail", verifAnd(tb.availableTokens >= 0, tb.availableTokens <= burst))
	verifAssert("inv-age", verifAnd(age1 >= 0, age1 < tpt))
	// difference form (the common monomial avail*tpt cancels syntactically); with the two
	// invariants above established, no term here can wrap around: all are below 2^58
	verifAssert("potential", phi1+admitted*tpt-phi0-gap <= 0)
	verifAssert("lastConsumed", tb.lastConsumed == admitted)
	verifAssert("admit-only-if-available", verifImp(verifAnd(admitted > 0, true), tokens <= burst))
	verifAssert("burst-unchanged", tb.burst == burst)
	verifReach("end")
}

// C13-O1..O4 on a single bucket.
func VerifC13Bucket() {
	now0 := verifClockInit("now0")
	tb, tpt, _ := vfBucket("b.", now0)
	burst := tb.burst
	_ = verifAdvance("gap", 1<<44)
	tokens := verifInt64("tokens")
	verifAssume(verifAnd(tokens >= 0, tokens <= 1<<21))

	// twin that only refreshes at the same instant
	twin := *tb
	_, _ = twin.consume(0)

	delay, err := tb.consume(tokens)
	rejected := verifOr(err != nil, delay > 0)
	// O1 free rejection: state equals the twin's
	same := verifAnd(tb.availableTokens == twin.availableTokens, tb.lastRefresh.Equal(twin.lastRefresh))
	verifAssert("rejected-costs-nothing", verifImp(rejected, verifAnd(same, tb.lastConsumed == 0)))
	// O4 oversize: error, undefined delay
	verifAssert("oversize-error", verifAnd(verifImp(tokens > burst, verifAnd(err != nil, delay == UndefinedDelay)), verifImp(tokens <= burst, err == nil)))
	verifAssert("admitted-debit", verifImp(verifAnd(err == nil, delay == 0), tb.availableTokens == twin.availableTokens-tokens))
	// O2 sufficient delay: wait the advertised delay (plus any more), retry, admitted
	if err == nil && delay > 0 {
		verifAssume(int64(delay) <= 1<<60)
		clock.Advance(delay)
		_ = verifAdvance("extra", 1<<44)
		d2, e2 := tb.consume(tokens)
		verifAssert("delay-sufficient", verifAnd(e2 == nil, d2 == 0))
		verifReach("retry")
	}
	_ = tpt
	verifReach("end")
}

// C13-O3: idle regain. From any state, staying idle for burst*tpt restores the full burst.
func VerifC13Idle() {
	now0 := verifClockInit("now0")
	tb, tpt, _ := vfBucket("b.", now0)
	idle := tb.burst * tpt
	clock.Advance(time.Duration(idle))
	_ = verifAdvance("extra", 1<<44)
	_, _ = tb.consume(0)
	verifAssert("idle-regain", tb.availableTokens == tb.burst)
	verifReach("end")
}

// C03-O2 / C13: a set of two buckets, both orders of map iteration.
func VerifC13Set() {
	now0 := verifClockInit("now0")
	b1, _, _ := vfBucket("b1.", now0)
	b2, _, _ := vfBucket("b2.", now0)
	tbs := &TokenBucketSet{buckets: map[time.Duration]*tokenBucket{}}
	// insertion order is symbolic; the engine additionally permutes iteration order
	tbs.buckets[time.Second] = b1
	tbs.buckets[time.Minute] = b2
	b1.period, b2.period = time.Second, time.Minute
	_ = verifAdvance("gap", 1<<44)
	tokens := verifInt64("tokens")
	verifAssume(verifAnd(tokens >= 0, tokens <= 1<<21))
	t1, t2 := *b1, *b2
	d1, e1 := t1.consume(tokens) // what each bucket alone would answer
	d2, e2 := t2.consume(tokens)
	r1, r2 := *b1, *b2
	_, _ = r1.consume(0) // refresh-only twins
	_, _ = r2.consume(0)

	delay, err := tbs.Consume(tokens)

	both := verifAnd(verifAnd(e1 == nil, d1 == 0), verifAnd(e2 == nil, d2 == 0))
	admitted := verifAnd(err == nil, delay == 0)
	verifAssert("admitted-iff-all-admit", admitted == both)
	verifAssert("admitted-debits-each-once", verifImp(admitted, verifAnd(b1.availableTokens == t1.availableTokens, b2.availableTokens == t2.availableTokens)))
	verifAssert("rejected-debits-none", verifImp(!admitted, verifAnd(
		verifAnd(b1.availableTokens == r1.availableTokens, b2.availableTokens == r2.availableTokens),
		verifAnd(b1.lastConsumed == 0, b2.lastConsumed == 0))))
	verifAssert("oversize-is-error", verifImp(verifOr(tokens > b1.burst, tokens > b2.burst), err != nil))
	verifAssert("error-only-if-oversize", verifImp(err != nil, verifOr(tokens > b1.burst, tokens > b2.burst)))
	verifAssert("delay-is-max", verifImp(verifAnd(e1 == nil, e2 == nil), int64(delay) == verifIteI64(d1 > d2, int64(d1), int64(d2))))
	verifReach("end")
}

