package ratelimit

import (
	"net/http"
	"time"

	"github.com/vulcand/oxy/v2/internal/holsterv4/clock"
)

func VerifC09TokenLimiter() {
	clock.Freeze(time.Unix(1700000000, 0))
	next := &vfOKshared{}
	tl := vfNewLimiter(next, time.Second, 1, 2, 3)
	vfAmount = 1
	tl.ServeHTTP(&verifRecorder{}, &http.Request{Host: "A", Header: http.Header{}})
	verifShared(tl)
	a := func() { tl.ServeHTTP(&verifRecorder{}, &http.Request{Host: "A", Header: http.Header{}}) }
	b := func() { tl.ServeHTTP(&verifRecorder{}, &http.Request{Host: "B", Header: http.Header{}}) }
	verifRacePair("ServeHTTP(A)|ServeHTTP(A)", a, a)
	verifRacePair("ServeHTTP(A)|ServeHTTP(B)", a, b)
	verifRacePair("ServeHTTP(new)|ServeHTTP(new)", func() { tl.ServeHTTP(&verifRecorder{}, &http.Request{Host: "C", Header: http.Header{}}) }, func() { tl.ServeHTTP(&verifRecorder{}, &http.Request{Host: "D", Header: http.Header{}}) })
	verifReach("end")
}

// a next handler without state (the counting one of the other harnesses would itself race)
type vfOKshared struct{}

func (h *vfOKshared) ServeHTTP(w http.ResponseWriter, r *http.Request) { w.WriteHeader(http.StatusOK) }
