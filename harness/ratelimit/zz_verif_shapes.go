package ratelimit

import (
	"net/http"
	"sync"
	"time"

	"github.com/vulcand/oxy/v2/internal/holsterv4/clock"
	"github.com/vulcand/oxy/v2/utils"
)

type vfVaryingRates struct{ sets []*RateSet }

var vfRateChoice int

func (v *vfVaryingRates) Extract(*http.Request) (*RateSet, error) { return v.sets[vfRateChoice], nil }

// C03-O5 / C13-O5: the limiter with two rates and a rate extractor whose answer varies per
// request between {1s} and {1s, 1min} (the 1s rate identical in both). k requests of one
// source with symbolic amounts (up to burst+1 of the larger rate) and gaps:
//   - a request larger than the burst of a rate in force is answered with an error that
//     carries no delay (neither 429 nor X-Retry-In), in either map iteration order;
//   - any other request is forwarded or answered 429 with the delay headers;
//   - the 1s rate's window bound holds across the shape changes.
func VerifC03Shapes() {
	k := verifParam("k")
	verifClockInit("t0")
	next := &vfOK{}
	const avg1, burst1, avg2, burst2 = 1, 2, 3, 3
	r1 := NewRateSet()
	_ = r1.Add(time.Second, avg1, burst1)
	r2 := NewRateSet()
	_ = r2.Add(time.Second, avg1, burst1)
	_ = r2.Add(time.Minute, avg2, burst2)
	ext := utils.ExtractorFunc(func(req *http.Request) (string, int64, error) { return req.Host, vfAmount, nil })
	tl, err := New(next, ext, r1, Capacity(4), ExtractRates(&vfVaryingRates{sets: []*RateSet{r1, r2}}))
	verifAssert("limiter-ok", err == nil)
	adm := make([]int64, k)
	at := make([]time.Time, k)
	for i := 0; i < k; i++ {
		if i > 0 {
			_ = verifAdvance(verifName("gap", i), verifParam("maxgap"))
		}
		amount := verifInt64(verifName("amount", i))
		verifAssume(verifAnd(amount >= 1, amount <= burst2+1))
		vfRateChoice = 0
		minBurst := int64(burst1)
		if verifParam("shapes")>>uint(i)&1 == 1 { // which rate set the extractor answers: one job per pattern
			vfRateChoice = 1
		}
		at[i] = clock.Now().UTC()
		vfAmount = amount
		rec := &verifRecorder{}
		before := next.calls
		tl.ServeHTTP(rec, &http.Request{Host: "A", Header: http.Header{}})
		admitted := next.calls == before+1
		if amount > minBurst {
			verifAssert("oversize-not-forwarded", !admitted)
			verifAssert("oversize-is-error-without-delay", verifAnd(verifAnd(len(rec.Codes) == 1, rec.code(0) != http.StatusTooManyRequests), verifAnd(rec.Header().Get("X-Retry-In") == "", rec.Header().Get("Retry-After") == "")))
		} else if admitted {
			adm[i] = amount
		} else {
			verifAssert("rejected-is-429-with-retry-header", verifAnd(verifAnd(len(rec.Codes) == 1, rec.code(0) == http.StatusTooManyRequests), rec.Header().Get("X-Retry-In") != ""))
		}
	}
	for i := 0; i < k; i++ {
		sum := int64(0)
		for j := i; j < k; j++ {
			sum += adm[j]
			T := int64(at[j].Sub(at[i]))
			verifAssert("window-bound-1s-rate-across-shape-changes", sum*int64(time.Second) <= (burst1+1)*int64(time.Second)+T*avg1)
		}
	}
	verifReach("end")
}

type vfOKLocked struct {
	mu    sync.Mutex
	calls int
}

func (h *vfOKLocked) ServeHTTP(w http.ResponseWriter, r *http.Request) {
	h.mu.Lock()
	h.calls++
	h.mu.Unlock()
	w.WriteHeader(http.StatusOK)
}

// C03-O6: two requests of one source arriving at once cannot both spend the same tokens.
// Fresh limiter, rate 1/s with burst b in {1,2} (symbolic), the source has spent `used`
// (symbolic, 0..b) tokens already; two concurrent requests of amount 1, the second running to
// completion at any one lock boundary of the first, at the same instant: the number admitted
// is min(2, b-used).
func VerifC03Concurrent() {
	verifClockInit("t0")
	burst := int64(verifConcretize(verifInt("burst"), 1, 2))
	used := int64(verifConcretize(verifInt("used"), 0, 2))
	if used > burst {
		verifStop()
	}
	ok := verifConcurrent("requests", 100000, func() (func(), func(), func() bool) {
		next := &vfOKLocked{}
		tl := vfNewLimiter(next, time.Second, 1, burst, 4)
		for i := int64(0); i < used; i++ {
			vfAmount = 1
			tl.ServeHTTP(&verifRecorder{}, &http.Request{Host: "A", Header: http.Header{}})
		}
		base := next.calls
		vfAmount = 1
		serve := func() { tl.ServeHTTP(&verifRecorder{}, &http.Request{Host: "A", Header: http.Header{}}) }
		return serve, serve, func() bool {
			want := burst - used
			if want > 2 {
				want = 2
			}
			return int64(next.calls-base) == want
		}
	})
	verifAssert("concurrent-requests-share-one-budget", ok)
	verifReach("end")
}
