package utils

import (
	"net/http"
)

// C19: client.ip extractor on the three address forms net/http produces.
//   form 0: ip4:port        (ip4 has none of ":[]%")
//   form 1: [ip6]:port      (ip6 contains ":" and none of "[]%")
//   form 2: [ip6%zone]:port
func VerifC19ClientIP() {
	form := verifParam("form")
	ip := verifStr("ip")
	port := verifStr("port")
	zone := verifStr("zone")
	// lengths are concrete per job (case split over small lengths); contents symbolic
	verifAssume(len(ip) == verifParam("lip"))
	verifAssume(len(port) == verifParam("lport"))
	verifAssume(len(zone) == verifParam("lzone"))
	verifAssume(!vfContainsAny(port, ":[]%"))
	verifAssume(!vfContainsAny(zone, ":[]%"))
	var addr, want string
	switch form {
	case 0:
		verifAssume(!vfContainsAny(ip, ":[]%"))
		addr, want = ip+":"+port, ip
	case 1:
		verifAssume(vfContains(ip, ":"))
		verifAssume(!vfContainsAny(ip, "[]%"))
		addr, want = "["+ip+"]:"+port, ip
	case 2:
		verifAssume(vfContains(ip, ":"))
		verifAssume(!vfContainsAny(ip, "[]%"))
		addr, want = "["+ip+"%"+zone+"]:"+port, ip+"%"+zone
	}
	ext, err := NewExtractor("client.ip")
	verifAssert("extractor-built", err == nil)
	tok, amount, err := ext.Extract(&http.Request{RemoteAddr: addr})
	verifAssert("client-ip-no-error", err == nil)
	verifAssert("client-ip-is-peer-address", tok == want)
	verifAssert("client-ip-amount-one", amount == 1)
	verifReach("end")
}

func vfContains(s, sub string) bool { return stringsContains(s, sub) }
func vfContainsAny(s, chars string) bool {
	r := false
	for i := 0; i < len(chars); i++ {
		r = verifOr(r, stringsContains(s, chars[i:i+1]))
	}
	return r
}

// request.host, request.header.X, amounts, and the dispatch on the variable name
func VerifC19Others() {
	host := verifStr("host")
	hv := verifStr("hv")
	verifAssume(verifAnd(len(host) <= 8, len(hv) <= 8))
	e1, err := NewExtractor("request.host")
	verifAssert("host-built", err == nil)
	tok, amount, err := e1.Extract(&http.Request{Host: host})
	verifAssert("host-token", verifAnd(verifAnd(err == nil, tok == host), amount == 1))
	// the configured header name may be spelled in any case (HTTP header names are case-insensitive)
	// and may contain any token character, dots included
	sp := verifConcretize(verifInt("spelling"), 0, 4)
	spell := []string{"X-Custom", "x-custom", "X-CUSTOM", "X-Tenant.Id", "x-tenant.id"}[sp]
	e2, err := NewExtractor("request.header." + spell)
	verifAssert("header-built", err == nil)
	h := http.Header{}
	h.Set([]string{"X-Custom", "X-Custom", "X-Custom", "X-Tenant.Id", "X-Tenant.Id"}[sp], hv)
	h.Set("X-Tenant", "another header")
	tok, amount, err = e2.Extract(&http.Request{Header: h})
	verifAssert("header-token", verifAnd(verifAnd(err == nil, tok == hv), amount == 1))
	// dispatch: accepted iff one of the two names or "request.header." + non-empty
	v := verifStr("variable")
	verifAssume(len(v) <= 20)
	_, err = NewExtractor(v)
	okWant := verifOr(verifOr(v == "client.ip", v == "request.host"), verifAnd(stringsHasPrefix(v, "request.header."), len(v) > len("request.header.")))
	verifAssert("dispatch", (err == nil) == okWant)
	verifReach("end")
}

// C19 corpus: concrete peer addresses as net/http produces them (complements the symbolic
// check with real multi-group IPv6 literals and zones): exact token, same token iff same address.
func VerifC19Corpus() {
	addrs := []string{"10.1.2.3:80", "10.1.2.3:9999", "[::1]:80", "[fe80::1%eth0]:8080", "[fe80::1%eth1]:8080", "[fe80::1]:8080", "[2001:db8::ff00:42:8329]:443", "192.0.2.1:1"}
	want := []string{"10.1.2.3", "10.1.2.3", "::1", "fe80::1%eth0", "fe80::1%eth1", "fe80::1", "2001:db8::ff00:42:8329", "192.0.2.1"}
	ext, err := NewExtractor("client.ip")
	verifAssert("extractor-built", err == nil)
	i := verifConcretize(verifInt("i"), 0, len(addrs)-1)
	j := verifConcretize(verifInt("j"), 0, len(addrs)-1)
	ti, ai, ei := ext.Extract(&http.Request{RemoteAddr: addrs[i]})
	tj, _, ej := ext.Extract(&http.Request{RemoteAddr: addrs[j]})
	verifAssert("corpus-no-error", verifAnd(ei == nil, ej == nil))
	verifAssert("corpus-token-is-peer-address", verifAnd(ti == want[i], ai == 1))
	verifAssert("same-token-iff-same-address", (ti == tj) == (want[i] == want[j]))
	verifReach("end")
}
