package utils

import (
	"net/http"
	"net/url"
)

type vfPW struct{ next http.Handler }

func (p vfPW) ServeHTTP(w http.ResponseWriter, r *http.Request) { p.next.ServeHTTP(NewProxyWriter(w), r) }

// the writer wrapper every oxy middleware hands down
func VerifC20T() {
	verifTransparent(func(next http.Handler) http.Handler { return vfPW{next} }, &http.Request{Method: "GET", URL: &url.URL{Path: "/"}, Header: http.Header{}}, false)
	verifReach("end")
}
