package forward

import (
	"crypto/tls"
	"net"
	"net/http"
	"net/textproto"
	"net/url"
	"os"
	"strings"
)

var vfTargets = []string{
	"/plain", "/a%2Fb", "/a%20b?x=%2F", "/%E4%BD%A0", "/p;v=1", "/a+b?c+d", "//double//slash", "/a/./b/../c", "/q?", "/q?a=1&a=2", "/",
}

var vfConnNames = []string{"X-Forwarded-Host", "X-Real-Ip", "X-Forwarded-Proto", "X-Forwarded-Port", "X-Forwarded-Server", "Keep-Alive", "X-Custom"}

// vfReverseProxyOutbound is a transcription of the documented outbound steps of
// net/http/httputil.ReverseProxy.ServeHTTP when configured through Director:
// clone the request, call Director, then remove the hop-by-hop headers (those named in
// Connection first, then the standard list), then append the peer to X-Forwarded-For.
func vfReverseProxyOutbound(p func(*http.Request), in *http.Request) *http.Request {
	out := new(http.Request)
	*out = *in
	out.Header = http.Header{}
	for k, vv := range in.Header {
		out.Header[k] = append([]string(nil), vv...)
	}
	if in.URL != nil {
		u := *in.URL
		out.URL = &u
	}
	p(out)
	for _, f := range out.Header["Connection"] {
		for _, sf := range strings.Split(f, ",") {
			if sf = textproto.TrimString(sf); sf != "" {
				out.Header.Del(sf)
			}
		}
	}
	for _, h := range []string{"Connection", "Proxy-Connection", "Keep-Alive", "Proxy-Authenticate", "Proxy-Authorization", "Te", "Trailer", "Transfer-Encoding", "Upgrade"} {
		out.Header.Del(h)
	}
	if clientIP, _, err := net.SplitHostPort(in.RemoteAddr); err == nil {
		prior := out.Header["X-Forwarded-For"]
		if len(prior) > 0 {
			clientIP = strings.Join(prior, ", ") + ", " + clientIP
		}
		out.Header.Set("X-Forwarded-For", clientIP)
	}
	return out
}

func VerifC08Pipeline() {
	passHost := verifBool("passHost")
	part := verifParam("part")
	verifAssume(passHost == (part&1 != 0))
	verifAssume(verifBool("tls") == (part&2 != 0))
	proxy := New(passHost)
	hostname, herr := os.Hostname()
	if herr != nil {
		hostname = "localhost"
	}
	// incoming request as the server hands it to the caller, who has chosen the backend
	mode := verifParam("mode") // 0: header pipeline varies (one target); 1: request targets vary
	ti := verifInt("target")
	verifAssume(verifAnd(ti >= 0, ti < len(vfTargets)))
	if mode == 0 {
		verifAssume(ti == 1)
	} else {
		verifAssume(verifAnd(verifAnd(verifInt("addr") == 0, !verifBool("hostWithPort")), !verifBool("xffPrior")))
		for i := 0; i < 4; i++ {
			verifAssume(!verifBool(verifName("supplied", i)))
		}
		for i := 1; i < len(vfConnNames); i++ {
			verifAssume(!verifBool(verifName("conn", i)))
		}
	}
	if mode == 0 {
		// the two plain hop-by-hop / end-to-end names go together to keep the space small
		verifAssume(verifBool("conn5") == verifBool("conn6"))
		verifAssume(verifBool("conn3") == verifBool("conn4"))
	}
	target := vfTargets[verifConcretize(ti, 0, len(vfTargets)-1)]
	in := &http.Request{Method: "GET", Proto: "HTTP/1.0", ProtoMajor: 1, ProtoMinor: 0, RequestURI: target, Header: http.Header{}}
	in.URL = &url.URL{Scheme: "http", Host: "backend:8080", Path: "/caller-set"}
	addr := verifConcretize(verifInt("addr"), 0, 2)
	wantIP := ""
	switch addr {
	case 0:
		in.RemoteAddr, wantIP = "10.1.2.3:4567", "10.1.2.3"
	case 1:
		in.RemoteAddr, wantIP = "[2001:db8::1]:4567", "2001:db8::1"
	case 2:
		in.RemoteAddr, wantIP = "[fe80::1%eth0]:4567", "fe80::1"
	}
	hostPort := verifBool("hostWithPort")
	in.Host = "front.example"
	wantPort := "80"
	if hostPort {
		in.Host, wantPort = "front.example:8443", "8443"
	}
	isTLS := verifBool("tls")
	wantProto := "http"
	if isTLS {
		in.TLS = &tls.ConnectionState{}
		wantProto = "https"
		if !hostPort {
			wantPort = "443"
		}
	}
	// client-supplied forwarding headers (an upstream proxy)
	supplied := map[string]string{}
	for i, h := range []string{"X-Forwarded-Proto", "X-Forwarded-Host", "X-Forwarded-Port", "X-Real-Ip"} {
		if verifBool(verifName("supplied", i)) {
			v := []string{"wss", "orig.example", "9999", "192.0.2.9"}[i]
			in.Header.Set(h, v)
			supplied[h] = v
		}
	}
	if verifBool("xffPrior") {
		in.Header.Set("X-Forwarded-For", "198.51.100.7")
	}
	in.Header.Set("X-Custom", "end-to-end")
	in.Header.Set("Accept", "*/*")
	in.Header.Set("Keep-Alive", "timeout=5")
	in.Header.Set("Te", "trailers")
	// Connection may name any of these headers
	var named []string
	lower := verifParam("lower") == 1 // field names are case-insensitive, also inside Connection
	for i, n := range vfConnNames {
		if verifBool(verifName("conn", i)) {
			if lower {
				n = strings.ToLower(n)
			}
			named = append(named, n)
		}
	}
	if len(named) > 0 {
		if len(named) > 1 && verifBool("connTwoLines") {
			// several Connection header lines are as valid as one comma-separated line
			in.Header["Connection"] = []string{named[0], strings.Join(named[1:], ", ")}
		} else {
			in.Header.Set("Connection", strings.Join(named, ", "))
		}
	}

	out := vfReverseProxyOutbound(proxy.Director, in)

	isNamed := func(h string) bool {
		for _, n := range named {
			if strings.EqualFold(n, h) {
				return true
			}
		}
		return false
	}
	// hop-by-hop headers are gone, also those named in Connection
	for _, h := range []string{"Connection", "Keep-Alive", "Te", "Upgrade", "Transfer-Encoding"} {
		verifAssert("hop-by-hop-removed", out.Header.Get(h) == "")
	}
	if isNamed("X-Custom") {
		verifAssert("connection-named-header-removed", out.Header.Get("X-Custom") == "")
	} else {
		verifAssert("end-to-end-header-kept", out.Header.Get("X-Custom") == "end-to-end")
	}
	verifAssert("end-to-end-header-kept", out.Header.Get("Accept") == "*/*")
	// forwarding headers describe the incoming connection unless an upstream proxy supplied them
	// (a supplied header that the client itself declared hop-by-hop does not count as supplied)
	want := func(h, own string) string {
		if v, ok := supplied[h]; ok && !isNamed(h) {
			return v
		}
		return own
	}
	proto := want("X-Forwarded-Proto", wantProto)
	if _, ok := supplied["X-Forwarded-Proto"]; ok && !isNamed("X-Forwarded-Proto") && !hostPort {
		wantPort = "443" // wss upstream implies the TLS port
	}
	verifAssert("x-forwarded-proto", out.Header.Get("X-Forwarded-Proto") == proto)
	verifAssert("x-forwarded-host", out.Header.Get("X-Forwarded-Host") == want("X-Forwarded-Host", in.Host))
	verifAssert("x-forwarded-port", out.Header.Get("X-Forwarded-Port") == want("X-Forwarded-Port", wantPort))
	verifAssert("x-real-ip", out.Header.Get("X-Real-Ip") == want("X-Real-Ip", wantIP))
	verifAssert("x-forwarded-server", out.Header.Get("X-Forwarded-Server") == hostname)
	xff := out.Header.Get("X-Forwarded-For")
	peer, _, _ := net.SplitHostPort(in.RemoteAddr)
	verifAssert("x-forwarded-for-ends-with-peer", strings.HasSuffix(xff, peer))
	// request line fidelity, protocol, host
	u, perr := url.ParseRequestURI(target)
	verifAssert("target-parses", perr == nil)
	if perr == nil {
		verifAssert("path-and-query-preserved", verifAnd(verifAnd(out.URL.Path == u.Path, out.URL.RawPath == u.RawPath), out.URL.RawQuery == u.RawQuery))
		verifAssert("request-line-preserved", out.URL.RequestURI() == target || (target == "/q?" && out.URL.RequestURI() == "/q"))
	}
	verifAssert("backend-unchanged", verifAnd(out.URL.Host == "backend:8080", out.URL.Scheme == "http"))
	verifAssert("http-1.1", verifAnd(out.Proto == "HTTP/1.1", verifAnd(out.ProtoMajor == 1, out.ProtoMinor == 1)))
	verifAssert("no-request-uri", out.RequestURI == "")
	if passHost {
		verifAssert("host-passed-through", out.Host == in.Host)
	} else {
		verifAssert("host-is-backend", out.Host == "backend:8080")
	}
	verifAssert("incoming-request-untouched", verifAnd(in.Host != "backend:8080", in.RequestURI == target))
	verifReach("end")
}
