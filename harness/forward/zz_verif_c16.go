package forward

import (
	"context"
	"errors"
	"io"
	"net/http"
	"net/url"
)

type vfNetErr struct{ timeout bool }

func (e *vfNetErr) Error() string   { return "net error" }
func (e *vfNetErr) Timeout() bool   { return e.timeout }
func (e *vfNetErr) Temporary() bool { return false }

// the shape of the transport's own timeout errors (net/http's httpError for the response-header
// timeout, net's timeoutError for a dial deadline): a net.Error that times out and that
// declares itself to be context.DeadlineExceeded through an Is method
type vfDeadlineErr struct{}

func (vfDeadlineErr) Error() string   { return "net/http: timeout awaiting response headers" }
func (vfDeadlineErr) Timeout() bool   { return true }
func (vfDeadlineErr) Temporary() bool { return true }
func (vfDeadlineErr) Is(target error) bool { return target == context.DeadlineExceeded }

type vfWrapErr struct{ inner error }

func (e *vfWrapErr) Error() string { return "wrapped" }
func (e *vfWrapErr) Unwrap() error { return e.inner }

// a request context that is already over (the client went away, or a deadline passed)
type vfDoneCtx struct {
	context.Context
	err error
}

func (c vfDoneCtx) Err() error { return c.err }

// C16-O1: the forwarder's error handler maps every failure to exactly one gateway status.
func VerifC16ErrorMap() {
	kind := verifInt("kind")
	verifAssume(verifAnd(kind >= 0, kind <= 8))
	kind = verifConcretize(kind, 0, 8)
	var err error
	want := http.StatusInternalServerError
	switch kind {
	case 0: // connection refused / reset: net.Error without timeout
		err, want = &vfNetErr{timeout: false}, http.StatusBadGateway
	case 1: // response-header timeout
		err, want = &vfNetErr{timeout: true}, http.StatusGatewayTimeout
	case 2:
		err, want = io.EOF, http.StatusBadGateway
	case 3:
		err, want = &vfWrapErr{io.EOF}, http.StatusBadGateway
	case 4:
		err, want = context.Canceled, 499
	case 5:
		err, want = &vfWrapErr{&vfWrapErr{context.Canceled}}, 499
	case 6:
		err, want = errors.New("anything else"), http.StatusInternalServerError
	case 8: // backend response timeout as the transport reports it
		err, want = vfDeadlineErr{}, http.StatusGatewayTimeout
	case 7: // a net.Error with symbolic timeout flag
		t := verifBool("timeout")
		err = &vfNetErr{timeout: t}
		if t {
			want = http.StatusGatewayTimeout
		} else {
			want = http.StatusBadGateway
		}
	}
	proxy := New(verifBool("passHost"))
	rec := &verifRecorder{}
	req := &http.Request{Header: http.Header{}}
	if verifBool("requestContextOver") {
		// whatever became of the client, the failure is still answered (and seen by the
		// middlewares that wrap the writer) with its one status
		req = req.WithContext(vfDoneCtx{context.Background(), context.Canceled})
	}
	proxy.ErrorHandler(rec, req, err)
	verifAssert("one-status", len(rec.Codes) == 1)
	verifAssert("gateway-status", rec.code(0) == want)
	verifAssert("one-body", len(rec.Bodies) == 1)
	verifReach("end")
}

// C16-O2: connection-state notifications are always paired, also when forwarding aborts.
type vfAbortNext struct{}

func (vfAbortNext) ServeHTTP(w http.ResponseWriter, r *http.Request) {
	mode := verifConcretize(verifInt("mode"), 0, 2)
	switch mode {
	case 1:
		panic(http.ErrAbortHandler) // ReverseProxy does this when the body copy fails midway
	case 2:
		panic("backend handler crashed")
	}
	w.WriteHeader(http.StatusOK)
}

func VerifC16Listener() {
	var events []int
	var urls []*url.URL
	l := NewStateListener(vfAbortNext{}, func(u *url.URL, state int) {
		events = append(events, state)
		urls = append(urls, u)
	})
	u := &url.URL{Scheme: "http", Host: "backend"}
	func() {
		defer func() { _ = recover() }() // net/http's server recovers handler panics
		l.ServeHTTP(&verifRecorder{}, &http.Request{URL: u, Header: http.Header{}})
	}()
	verifAssert("connected-then-disconnected", verifAnd(len(events) == 2, verifAnd(vfAt(events, 0) == StateConnected, vfAt(events, 1) == StateDisconnected)))
	verifAssert("same-url", verifAnd(len(urls) == 2, verifAnd(vfURLAt(urls, 0) == u, vfURLAt(urls, 1) == u)))
	verifReach("end")
}

func vfAt(s []int, i int) int {
	if i < len(s) {
		return s[i]
	}
	return -1
}
func vfURLAt(s []*url.URL, i int) *url.URL {
	if i < len(s) {
		return s[i]
	}
	return nil
}
