package roundrobin

import (
	"net/url"
)

// C01-O2: full-window exactness through the public API (bounded model checking).
// Symbolic: the weights (0..wmax, not all zero, zeros produced by re-weighting), the
// window offset k0. Concrete per job: n, wmax.
func VerifC01Window() {
	n := verifParam("n")
	wmax := verifParam("wmax")
	r, err := New(nil)
	verifAssert("new-ok", err == nil)
	urls := make([]*url.URL, n)
	w := make([]int, n)
	sum := 0
	for i := 0; i < n; i++ {
		urls[i] = &url.URL{Scheme: "http", Host: verifName("s", i)}
		w[i] = verifInt(verifName("w", i))
		verifAssume(verifAnd(w[i] >= 0, w[i] <= wmax))
		sum += w[i]
		// a new server with Weight(0) would get the default weight: add, then re-weight
		e1 := r.UpsertServer(urls[i], Weight(1))
		e2 := r.UpsertServer(urls[i], Weight(w[i]))
		verifAssert("upsert-ok", verifAnd(e1 == nil, e2 == nil))
	}
	verifAssume(sum > 0)
	if part := verifParam("part"); part >= 0 {
		verifAssume(w[0] == part) // work partition over the first weight
	}
	// g = gcd of the weights, specified declaratively (divides all; no larger divisor does)
	g := verifInt("g")
	verifAssume(verifAnd(g >= 1, g <= wmax))
	for i := 0; i < n; i++ {
		verifAssume(w[i]%g == 0)
	}
	for d := 2; d <= wmax; d++ {
		all := true
		for i := 0; i < n; i++ {
			all = verifAnd(all, w[i]%d == 0)
		}
		verifAssume(verifImp(all, d <= g))
	}
	W := verifConcretize(sum/g, 1, n*wmax)
	// 2W-1 selections; every window of length W inside them (i.e. every window offset
	// k0 in [0,W)) must contain server i exactly w_i/g times.
	T := 2*W - 1
	pre := make([][]int, n) // pre[i][k] = selections of server i among the first k
	for i := 0; i < n; i++ {
		pre[i] = make([]int, 2*n*wmax+1)
	}
	for k := 0; k < T; k++ {
		u, e := r.NextServer()
		verifAssert("next-ok", e == nil)
		if e != nil {
			verifStop()
		}
		for i := 0; i < n; i++ {
			pre[i][k+1] = pre[i][k]
			if u.Host == urls[i].Host {
				pre[i][k+1]++
			}
		}
	}
	for k0 := 0; k0 < W; k0++ {
		ok := true
		for i := 0; i < n; i++ {
			ok = verifAnd(ok, (pre[i][k0+W]-pre[i][k0])*g == w[i])
		}
		verifAssert("window-count", ok)
	}
	verifReach("end")
}

// C01-O1: step characterisation of nextServer from an arbitrary iterator state, 31-bit
// symbolic weights, arbitrary positive step g (weightGcd is stubbed: the behaviour of one
// step does not depend on g being the gcd; VerifC01Window ties it to the real gcd).
//   phase 1: indices after `index` (when index >= 0) at the current level cw;
//   otherwise the level drops by g (or restarts at max when that is <= 0) and the sweep
//   restarts at index 0. The first server whose weight reaches the level in force is returned.
func VerifC01Step() {
	n := verifParam("n")
	r, _ := New(nil)
	g := verifInt("g")
	verifAssume(verifAnd(g >= 1, g < 1<<31))
	verifStub("(*github.com/vulcand/oxy/v2/roundrobin.RoundRobin).weightGcd", func(rr *RoundRobin) int { return g })
	w := make([]int, n)
	max := 0
	for i := 0; i < n; i++ {
		w[i] = verifInt(verifName("w", i))
		verifAssume(verifAnd(w[i] >= 0, w[i] < 1<<31))
		max = verifIteInt(w[i] > max, w[i], max)
		r.servers = append(r.servers, &server{url: &url.URL{Host: verifName("s", i)}, weight: w[i]})
	}
	verifAssume(max > 0)
	idx := verifInt("index")
	verifAssume(verifAnd(idx >= -1, idx < n))
	idx = verifConcretize(idx, -1, n-1)
	cw := verifInt("cw")
	verifAssume(verifAnd(cw >= 0, cw <= max))
	// iterator invariant: currentWeight is 0 only in the reset state (index -1); every step
	// establishes 0 < currentWeight <= max (asserted below), reset re-establishes (-1, 0)
	verifAssume(verifImp(cw == 0, idx == -1))
	r.index, r.currentWeight = idx, cw

	srv, err := r.nextServer()

	// reference, branch-free
	found1, j1 := false, 0
	if idx >= 0 {
		for i := n - 1; i > idx; i-- {
			hit := w[i] >= cw
			j1 = verifIteInt(hit, i, j1)
			found1 = verifOr(found1, hit)
		}
	}
	level2 := verifIteInt(cw-g <= 0, max, cw-g)
	j2 := 0
	for i := n - 1; i >= 0; i-- {
		j2 = verifIteInt(w[i] >= level2, i, j2)
	}
	wantJ := verifIteInt(found1, j1, j2)
	wantLevel := verifIteInt(found1, cw, level2)
	verifAssert("step-no-error", err == nil)
	if err == nil {
		got := -1
		for i := 0; i < n; i++ {
			if srv == r.servers[i] {
				got = i
			}
		}
		verifAssert("step-returns-first-qualifying-server", got == wantJ)
		verifAssert("step-level", r.currentWeight == wantLevel)
		verifAssert("step-index", r.index == got)
		verifAssert("step-invariant", verifAnd(r.currentWeight > 0, r.currentWeight <= max))
		verifAssert("step-weight-reaches-level", srv.weight >= r.currentWeight)
	}
	verifAssert("lock-released", verifLocksHeld() <= 0)
	verifReach("end")
}

// C01-O3: the step used by the sweep is the greatest common divisor of the weights: the real
// weightGcd on n servers with symbolic weights in [0,M] (not all zero) returns g >= 1 that
// divides every weight and is a multiple of every common divisor d in [2,M]. Together with
// O1 (one step for an arbitrary g) this ties the level arithmetic to gcd for weights beyond
// the window bound of O2.
func VerifC01Gcd() {
	n := verifParam("n")
	M := verifParam("M")
	r, _ := New(nil)
	w := make([]int, n)
	sum := 0
	for i := 0; i < n; i++ {
		w[i] = verifInt(verifName("w", i))
		verifAssume(verifAnd(w[i] >= 0, w[i] <= M))
		sum += w[i]
		r.servers = append(r.servers, &server{url: &url.URL{Host: verifName("s", i)}, weight: w[i]})
	}
	verifAssume(sum > 0)
	g := r.weightGcd()
	verifAssert("gcd-positive", g >= 1)
	if g < 1 {
		verifStop()
	}
	div := true
	for i := 0; i < n; i++ {
		div = verifAnd(div, w[i]%g == 0)
	}
	verifAssert("gcd-divides-every-weight", div)
	greatest := true
	for d := 2; d <= M; d++ {
		all := true
		for i := 0; i < n; i++ {
			all = verifAnd(all, w[i]%d == 0)
		}
		greatest = verifAnd(greatest, verifImp(all, g%d == 0))
	}
	verifAssert("gcd-is-greatest", greatest)
	verifReach("end")
}

// C01-O4: selections made by two callers at once are the next two selections of the
// sequence, in some order. Two concurrent NextServer calls (the second running to completion
// at any one lock boundary of the first) on a pool with symbolic weights after a symbolic
// warm-up, against a twin balancer that makes the same selections sequentially: the pair
// chosen is the twin's next pair, and the selection after it is the twin's third.
func VerifC01Concurrent() {
	n := verifParam("n")
	w := make([]int, n)
	sum := 0
	for i := 0; i < n; i++ {
		w[i] = verifConcretize(verifInt(verifName("w", i)), 0, 3)
		sum += w[i]
	}
	if sum == 0 {
		verifStop()
	}
	warm := verifConcretize(verifInt("warm"), 0, 3)
	build := func() *RoundRobin {
		r, _ := New(nil)
		for i := 0; i < n; i++ {
			u := &url.URL{Scheme: "http", Host: verifName("s", i)}
			_ = r.UpsertServer(u, Weight(1))
			_ = r.UpsertServer(u, Weight(w[i]))
		}
		for k := 0; k < warm; k++ {
			_, _ = r.NextServer()
		}
		return r
	}
	ok := verifConcurrent("selections", 100000, func() (func(), func(), func() bool) {
		r, twin := build(), build()
		var a, b *url.URL
		return func() { a, _ = r.NextServer() }, func() { b, _ = r.NextServer() }, func() bool {
			t1, _ := twin.NextServer()
			t2, _ := twin.NextServer()
			t3, _ := twin.NextServer()
			c, _ := r.NextServer()
			if a == nil || b == nil || c == nil || t1 == nil || t2 == nil || t3 == nil {
				return false
			}
			pair := (a.Host == t1.Host && b.Host == t2.Host) || (a.Host == t2.Host && b.Host == t1.Host)
			return pair && c.Host == t3.Host
		}
	})
	verifAssert("concurrent-selections-are-the-next-two", ok)
	verifAssert("lock-released", verifLocksHeld() <= 0)
	verifReach("end")
}
