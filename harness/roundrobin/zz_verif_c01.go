package roundrobin

import (
	"net/url"
)

// C01-O2: full-window exactness through the public API (bounded model checking).
// Symbolic: the weights (0..wmax, not all zero, zeros produced by re-weighting), the
// window offset k0. Concrete per job: n, wmax.
func VerifC01Window() {
	n := verifParam("n")
	wmax := verifParam("wmax")
	r, err := New(nil)
	verifAssert("new-ok", err == nil)
	urls := make([]*url.URL, n)
	w := make([]int, n)
	sum := 0
	for i := 0; i < n; i++ {
		urls[i] = &url.URL{Scheme: "http", Host: verifName("s", i)}
		w[i] = verifInt(verifName("w", i))
		verifAssume(verifAnd(w[i] >= 0, w[i] <= wmax))
		sum += w[i]
		// a new server with Weight(0) would get the default weight: add, then re-weight
		e1 := r.UpsertServer(urls[i], Weight(1))
		if i == n-1 && verifParam("failed") == 1 {
			// the last re-weighting is an invalid call (a valid option followed by an invalid
			// one) made in mid-rotation: it must fail; whatever weight the balancer reports
			// afterwards is the weight the selections have to be proportional to
			sk := verifInt("skip")
			verifAssume(verifAnd(sk >= 0, sk <= 3))
			for s := verifConcretize(sk, 0, 3); s > 0; s-- {
				_, _ = r.NextServer()
			}
			e2 := r.UpsertServer(urls[i], Weight(w[i]), Weight(-1))
			verifAssert("invalid-upsert-fails", verifAnd(e1 == nil, e2 != nil))
			rw, ok := r.ServerWeight(urls[i])
			verifAssert("weight-reported", ok)
			sum += rw - w[i]
			w[i] = rw
			continue
		}
		e2 := r.UpsertServer(urls[i], Weight(w[i]))
		verifAssert("upsert-ok", verifAnd(e1 == nil, e2 == nil))
	}
	verifAssume(sum > 0)
	if part := verifParam("part"); part >= 0 {
		verifAssume(w[0] == part) // work partition over the first weight
	}
	// g = gcd of the weights, specified declaratively (divides all; no larger divisor does)
	g := verifInt("g")
	verifAssume(verifAnd(g >= 1, g <= wmax))
	for i := 0; i < n; i++ {
		verifAssume(w[i]%g == 0)
	}
	for d := 2; d <= wmax; d++ {
		all := true
		for i := 0; i < n; i++ {
			all = verifAnd(all, w[i]%d == 0)
		}
		verifAssume(verifImp(all, d <= g))
	}
	W := verifConcretize(sum/g, 1, n*wmax)
	// 2W-1 selections; every window of length W inside them (i.e. every window offset
	// k0 in [0,W)) must contain server i exactly w_i/g times.
	T := 2*W - 1
	pre := make([][]int, n) // pre[i][k] = selections of server i among the first k
	for i := 0; i < n; i++ {
		pre[i] = make([]int, 2*n*wmax+1)
	}
	for k := 0; k < T; k++ {
		u, e := r.NextServer()
		verifAssert("next-ok", e == nil)
		if e != nil {
			verifStop()
		}
		for i := 0; i < n; i++ {
			pre[i][k+1] = pre[i][k]
			if u.Host == urls[i].Host {
				pre[i][k+1]++
			}
		}
	}
	for k0 := 0; k0 < W; k0++ {
		ok := true
		for i := 0; i < n; i++ {
			ok = verifAnd(ok, (pre[i][k0+W]-pre[i][k0])*g == w[i])
		}
		verifAssert("window-count", ok)
	}
	verifReach("end")
}
