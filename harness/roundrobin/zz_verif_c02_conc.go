package roundrobin

import (
	"net/http"
	"net/url"
	"time"

	"github.com/vulcand/oxy/v2/internal/holsterv4/clock"
)

// a log sink at which the caller may be held up
type vfYieldLog struct{}

func (vfYieldLog) Debug(string, ...any) { verifYield() }
func (vfYieldLog) Info(string, ...any)  { verifYield() }
func (vfYieldLog) Warn(string, ...any)  {}
func (vfYieldLog) Error(string, ...any) {}

func vfHas(us []*url.URL, u *url.URL) bool {
	for _, x := range us {
		if vfSameURL(x, u) {
			return true
		}
	}
	return false
}

// C02-O5: an administration call that races with a weight adjustment. The rebalancer manages
// three servers, all meters ready, the back-off timer expired and one server rated an outlier,
// so the request served by thread A ends in an adjustment that pushes new weights to the
// balancer. At one scheduling point inside A (any mutex acquire/release of the rebalancer or
// the balancer, any line written to the log sink) thread B makes one administration call —
// remove a member, re-weight a member, add a server (symbolic) — to completion; then A resumes.
// Afterwards the pool is exactly what the calls define: the balancer and the rebalancer agree
// on the members, a successfully removed server is in neither and is not selected in the next
// rotation, an added one is in both.
func VerifC02AdminDuringAdjust() {
	clock.Freeze(time.Unix(1700000000, 0))
	us := vfURLs()
	members := []*url.URL{us[0], us[2], us[3]}
	extra := &url.URL{Scheme: "http", Host: "b:81", Path: "/"}
	rr, _ := New(vfNop{})
	rb, err := NewRebalancer(rr, RebalancerBackoff(time.Second), RebalancerLogger(vfYieldLog{}),
		RebalancerMeter(func() (Meter, error) { return &vfMeter{ready: true}, nil }))
	verifAssert("rebalancer-ok", err == nil)
	for _, u := range members {
		verifAssert("upsert-ok", rb.UpsertServer(u, Weight(1)) == nil)
	}
	bad := verifConcretize(verifInt("outlier"), 0, 2)
	for i, s := range rb.servers {
		if i == bad {
			s.meter.(*vfMeter).rating = 1
		}
	}
	clock.Advance(2 * time.Second)
	op := verifConcretize(verifInt("op"), 0, 2)
	victim := verifConcretize(verifInt("victim"), 0, 2)
	var opErr error
	verifInterleave("admin", func() {
		rb.ServeHTTP(&verifRecorder{}, &http.Request{URL: &url.URL{Path: "/"}, Header: http.Header{}})
	}, func() {
		switch op {
		case 0:
			opErr = rb.RemoveServer(members[victim])
		case 1:
			opErr = rb.UpsertServer(members[victim], Weight(3))
		case 2:
			opErr = rb.UpsertServer(extra, Weight(1))
		}
	})
	verifAssert("admin-call-ok", opErr == nil)
	inRR, inRB := rr.Servers(), rb.Servers()
	verifAssert("balancer-and-rebalancer-agree-on-size", len(inRR) == len(inRB))
	for _, u := range inRR {
		verifAssert("balancer-member-known-to-rebalancer", vfHas(inRB, u))
	}
	want := 3
	switch op {
	case 0:
		want = 2
		verifAssert("removed-server-gone", verifAnd(!vfHas(inRR, members[victim]), !vfHas(inRB, members[victim])))
		for k := 0; k < 8; k++ {
			u, e := rr.NextServer()
			verifAssert("next-ok", e == nil)
			if e == nil {
				verifAssert("removed-server-never-selected", !vfSameURL(u, members[victim]))
			}
		}
	case 2:
		want = 4
		verifAssert("added-server-present", verifAnd(vfHas(inRR, extra), vfHas(inRB, extra)))
	}
	verifAssert("pool-size", len(inRR) == want)
	verifAssert("locks-released", verifLocksHeld() <= 0)
	verifReach("end")
}
