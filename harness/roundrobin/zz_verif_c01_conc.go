package roundrobin

import (
	"net/url"
)

// C01-O4: selections made by two callers at once are the next two selections of the
// sequence, in some order. Two concurrent NextServer calls (the second running to completion
// at any one lock boundary of the first) on a pool with symbolic weights after a symbolic
// warm-up, against a twin balancer that makes the same selections sequentially: the pair
// chosen is the twin's next pair, and the selection after it is the twin's third.
func VerifC01Concurrent() {
	n := verifParam("n")
	w := make([]int, n)
	sum := 0
	for i := 0; i < n; i++ {
		w[i] = verifConcretize(verifInt(verifName("w", i)), 0, 3)
		sum += w[i]
	}
	if sum == 0 {
		verifStop()
	}
	warm := verifConcretize(verifInt("warm"), 0, 3)
	build := func() *RoundRobin {
		r, _ := New(nil)
		for i := 0; i < n; i++ {
			u := &url.URL{Scheme: "http", Host: verifName("s", i)}
			_ = r.UpsertServer(u, Weight(1))
			_ = r.UpsertServer(u, Weight(w[i]))
		}
		for k := 0; k < warm; k++ {
			_, _ = r.NextServer()
		}
		return r
	}
	ok := verifConcurrent("selections", 100000, func() (func(), func(), func() bool) {
		r, twin := build(), build()
		var a, b *url.URL
		return func() { a, _ = r.NextServer() }, func() { b, _ = r.NextServer() }, func() bool {
			t1, _ := twin.NextServer()
			t2, _ := twin.NextServer()
			t3, _ := twin.NextServer()
			c, _ := r.NextServer()
			if a == nil || b == nil || c == nil || t1 == nil || t2 == nil || t3 == nil {
				return false
			}
			pair := (a.Host == t1.Host && b.Host == t2.Host) || (a.Host == t2.Host && b.Host == t1.Host)
			return pair && c.Host == t3.Host
		}
	})
	verifAssert("concurrent-selections-are-the-next-two", ok)
	verifAssert("lock-released", verifLocksHeld() <= 0)
	verifReach("end")
}
