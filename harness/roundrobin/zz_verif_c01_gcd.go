package roundrobin

import (
	"net/url"
)

// C01-O3: the step used by the sweep is the greatest common divisor of the weights: the real
// weightGcd on n servers with symbolic weights in [0,M] (not all zero) returns g >= 1 that
// divides every weight and is a multiple of every common divisor d in [2,M]. Together with
// O1 (one step for an arbitrary g) this ties the level arithmetic to gcd for weights beyond
// the window bound of O2.
func VerifC01Gcd() {
	n := verifParam("n")
	M := verifParam("M")
	r, _ := New(nil)
	w := make([]int, n)
	sum := 0
	for i := 0; i < n; i++ {
		w[i] = verifInt(verifName("w", i))
		verifAssume(verifAnd(w[i] >= 0, w[i] <= M))
		sum += w[i]
		r.servers = append(r.servers, &server{url: &url.URL{Host: verifName("s", i)}, weight: w[i]})
	}
	verifAssume(sum > 0)
	g := r.weightGcd()
	verifAssert("gcd-positive", g >= 1)
	if g < 1 {
		verifStop()
	}
	div := true
	for i := 0; i < n; i++ {
		div = verifAnd(div, w[i]%g == 0)
	}
	verifAssert("gcd-divides-every-weight", div)
	greatest := true
	for d := 2; d <= M; d++ {
		all := true
		for i := 0; i < n; i++ {
			all = verifAnd(all, w[i]%d == 0)
		}
		greatest = verifAnd(greatest, verifImp(all, g%d == 0))
	}
	verifAssert("gcd-is-greatest", greatest)
	verifReach("end")
}
