package roundrobin

import (
	"net/http"
	"net/url"
	"strings"
	"time"

	"github.com/vulcand/oxy/v2/internal/holsterv4/clock"
)

// vfCookieValue extracts the value of the "sid" cookie from a Set-Cookie header line.
func vfCookieValue(sc string) string {
	if len(sc) < 4 || sc[:4] != "sid=" {
		return ""
	}
	v := sc[4:]
	if i := strings.Index(v, ";"); i >= 0 {
		return v[:i]
	}
	return v
}

// C11-O4: cookies over time. A client is pinned at t0; rounds of "time passes, the client
// comes back with the cookie it was last given" follow, the idle time of each round chosen
// from {0, 4 s, 10 s, 11 s, 25 s} (cookie lifetime of the expiring codecs: 10 s). In every
// round: the request is served by a member; while the cookie presented is within its lifetime
// (always, for codecs without expiry) it is served by the server the cookie was issued for;
// and whenever a cookie is handed out it is fresh — presented at once it pins the client to
// the server that has just served it (no cookie issued earlier for that server is re-used).
func VerifC11Fresh() {
	vfCryptoStubs()
	clock.Freeze(time.Unix(1700000000, 0))
	kind := verifParam("kind")
	codec, ttl := vfCodec(kind)
	us := vfStickyURLs()[1:4]
	down := &vfDownstream{mutate: true}
	sticky := NewStickySession("sid").SetCookieValue(codec)
	rr, err := New(down, EnableStickySession(sticky))
	verifAssert("new-ok", err == nil)
	var serve func(w http.ResponseWriter, r *http.Request) = rr.ServeHTTP
	var pool vfPool = rr
	if verifParam("rebalancer") == 1 {
		rb, err := NewRebalancer(rr, RebalancerStickySession(sticky), RebalancerMeter(func() (Meter, error) { return vfIdleMeter{}, nil }))
		verifAssert("rb-ok", err == nil)
		serve, pool = rb.ServeHTTP, rb
	}
	for i := range us {
		verifAssert("upsert-ok", pool.UpsertServer(us[i], Weight(1)) == nil)
	}
	calls := 0
	request := func(cookie string) (*url.URL, string) {
		req := &http.Request{URL: &url.URL{Path: "/r"}, Header: http.Header{}}
		if cookie != "" {
			req.AddCookie(&http.Cookie{Name: "sid", Value: cookie})
		}
		rec := &verifRecorder{}
		serve(rec, req)
		calls++
		verifAssert("served-by-a-member", verifAnd(down.calls == calls, vfIdentOfSticky(us, down.seen) >= 0))
		return down.seen, vfCookieValue(rec.Header().Get("Set-Cookie"))
	}
	// first visit: no cookie
	srv, cookie := request("")
	verifAssert("first-visit-gets-cookie", cookie != "")
	issued := clock.Now().UTC()
	for round := 0; round < verifParam("rounds"); round++ {
		idle := []time.Duration{0, 4 * time.Second, 10 * time.Second, 11 * time.Second, 25 * time.Second}[verifConcretize(verifInt(verifName("idle", round)), 0, 4)]
		clock.Advance(idle)
		now := clock.Now().UTC()
		got, fresh := request(cookie)
		if ttl == 0 || now.Sub(issued) < ttl {
			verifAssert("valid-cookie-goes-to-its-server", vfSameURL(got, srv))
		}
		if fresh != "" {
			// a cookie handed out now pins the client from the very next request on
			again, _ := request(fresh)
			verifAssert("fresh-cookie-pins-the-client", vfSameURL(again, got))
			srv, cookie, issued = got, fresh, now
			verifReach("reissued")
		} else {
			verifAssert("no-new-cookie-only-while-the-old-one-works", vfSameURL(got, srv))
		}
	}
	verifReach("end")
}
