package roundrobin

import (
	"net/url"
)

// C01-O1: step characterisation of nextServer from an arbitrary iterator state, 31-bit
// symbolic weights, arbitrary positive step g (weightGcd is stubbed: the behaviour of one
// step does not depend on g being the gcd; VerifC01Window ties it to the real gcd).
//
//	phase 1: indices after `index` (when index >= 0) at the current level cw;
//	otherwise the level drops by g (or restarts at max when that is <= 0) and the sweep
//	restarts at index 0. The first server whose weight reaches the level in force is returned.
func VerifC01Step() {
	n := verifParam("n")
	r, _ := New(nil)
	g := verifInt("g")
	verifAssume(verifAnd(g >= 1, g < 1<<31))
	verifStub("(*github.com/vulcand/oxy/v2/roundrobin.RoundRobin).weightGcd", func(rr *RoundRobin) int { return g })
	w := make([]int, n)
	max := 0
	for i := 0; i < n; i++ {
		w[i] = verifInt(verifName("w", i))
		verifAssume(verifAnd(w[i] >= 0, w[i] < 1<<31))
		max = verifIteInt(w[i] > max, w[i], max)
		// the pool is built through the API (add, then re-weight: a new server with Weight(0)
		// would get the default weight), so that whatever the balancer derives from the pool
		// when it changes is in place; only the iterator position below is set directly
		u := &url.URL{Scheme: "http", Host: verifName("s", i)}
		e1 := r.UpsertServer(u, Weight(1))
		e2 := r.UpsertServer(u, Weight(w[i]))
		verifAssert("upsert-ok", verifAnd(e1 == nil, e2 == nil))
	}
	verifAssert("pool-built", len(r.servers) == n)
	for i := 0; i < n && i < len(r.servers); i++ {
		verifAssert("pool-weights", r.servers[i].weight == w[i])
	}
	verifAssume(max > 0)
	idx := verifInt("index")
	verifAssume(verifAnd(idx >= -1, idx < n))
	idx = verifConcretize(idx, -1, n-1)
	cw := verifInt("cw")
	verifAssume(verifAnd(cw >= 0, cw <= max))
	// iterator invariant: currentWeight is 0 only in the reset state (index -1); every step
	// establishes 0 < currentWeight <= max (asserted below), reset re-establishes (-1, 0)
	verifAssume(verifImp(cw == 0, idx == -1))
	r.index, r.currentWeight = idx, cw

	srv, err := r.nextServer()

	// reference, branch-free
	found1, j1 := false, 0
	if idx >= 0 {
		for i := n - 1; i > idx; i-- {
			hit := w[i] >= cw
			j1 = verifIteInt(hit, i, j1)
			found1 = verifOr(found1, hit)
		}
	}
	level2 := verifIteInt(cw-g <= 0, max, cw-g)
	j2 := 0
	for i := n - 1; i >= 0; i-- {
		j2 = verifIteInt(w[i] >= level2, i, j2)
	}
	wantJ := verifIteInt(found1, j1, j2)
	wantLevel := verifIteInt(found1, cw, level2)
	verifAssert("step-no-error", err == nil)
	if err == nil {
		got := -1
		for i := 0; i < n; i++ {
			if srv == r.servers[i] {
				got = i
			}
		}
		verifAssert("step-returns-first-qualifying-server", got == wantJ)
		verifAssert("step-level", r.currentWeight == wantLevel)
		verifAssert("step-index", r.index == got)
		verifAssert("step-invariant", verifAnd(r.currentWeight > 0, r.currentWeight <= max))
		verifAssert("step-weight-reaches-level", srv.weight >= r.currentWeight)
	}
	verifAssert("lock-released", verifLocksHeld() <= 0)
	verifReach("end")
}
