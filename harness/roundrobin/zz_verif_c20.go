package roundrobin

import (
	"net/http"
	"net/url"
	"time"

	"github.com/vulcand/oxy/v2/internal/holsterv4/clock"
)

func VerifC20T() {
	clock.Freeze(time.Unix(1700000000, 0))
	req := &http.Request{Method: "GET", URL: &url.URL{Path: "/"}, Header: http.Header{}}
	us := vfURLs()
	withSticky := verifBool("sticky")
	mkRR := func(next http.Handler) *RoundRobin {
		var rr *RoundRobin
		var err error
		if withSticky {
			rr, err = New(next, EnableStickySession(NewStickySession("sid")))
		} else {
			rr, err = New(next)
		}
		verifAssert("new-ok", err == nil)
		verifAssert("upsert-ok", rr.UpsertServer(us[0]) == nil)
		return rr
	}
	extra := []string{}
	if withSticky {
		extra = append(extra, "Set-Cookie")
	}
	if verifBool("rebalancer") {
		verifTransparent(func(next http.Handler) http.Handler {
			rb, err := NewRebalancer(mkRR(next), RebalancerMeter(func() (Meter, error) { return vfIdleMeter{}, nil }))
			verifAssert("rb-ok", err == nil)
			return rb
		}, req, false, extra...)
	} else {
		verifTransparent(func(next http.Handler) http.Handler { return mkRR(next) }, req, false, extra...)
	}
	// decisive: empty pool -> one complete error response, handler not invoked
	sc := &verifScript{}
	rr, _ := New(sc)
	rec := &verifRecorderFH{}
	rr.ServeHTTP(rec, req)
	verifAssert("intervention-skips-handler", sc.Calls == 0)
	verifAssert("intervention-one-response", verifAnd(len(rec.Codes) == 1, rec.code(0) == http.StatusInternalServerError))
	verifReach("end")
}
