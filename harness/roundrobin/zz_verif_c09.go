package roundrobin

import (
	"net/http"
	"net/url"
	"time"

	"github.com/vulcand/oxy/v2/internal/holsterv4/clock"
)

type vfNop struct{}

func (vfNop) ServeHTTP(w http.ResponseWriter, r *http.Request) { w.WriteHeader(200) }

// C09: RoundRobin and Rebalancer under concurrent requests and administration.
func VerifC09Balancers() {
	clock.Freeze(time.Unix(1700000000, 0))
	us := vfURLs()
	rr, _ := New(vfNop{})
	_ = rr.UpsertServer(us[0], Weight(2))
	_ = rr.UpsertServer(us[2], Weight(1))
	verifShared(rr)
	serve := func() {
		rr.ServeHTTP(&verifRecorder{}, &http.Request{URL: &url.URL{Path: "/"}, Header: http.Header{}})
	}
	entries := []struct {
		name string
		f    func()
	}{
		{"ServeHTTP", serve},
		{"NextServer", func() { _, _ = rr.NextServer() }},
		{"UpsertServer(existing)", func() { _ = rr.UpsertServer(us[0], Weight(3)) }},
		{"UpsertServer(new)", func() { _ = rr.UpsertServer(us[3], Weight(1)) }},
		{"RemoveServer", func() { _ = rr.RemoveServer(us[3]) }},
		{"ServerWeight", func() { _, _ = rr.ServerWeight(us[0]) }},
		{"Servers", func() { _ = rr.Servers() }},
	}
	for i := range entries {
		for j := i; j < len(entries); j++ {
			verifRacePair("rr:"+entries[i].name+"|"+entries[j].name, entries[i].f, entries[j].f)
		}
	}
	verifReach("end")
}

// a meter as users write them: plain fields, no synchronisation of its own — the
// rebalancer's mutex is what makes Record / IsReady / Rating safe (as for the default meter)
type vfPlainMeter struct {
	n      int
	failed int
}

func (m *vfPlainMeter) Rating() float64 { return float64(m.failed) }
func (m *vfPlainMeter) Record(code int, d time.Duration) {
	m.n++
	if !verifSymbolic() {
		// natively (replay under the race detector) a meter that takes its time: the other
		// goroutine's critical section then falls inside this call often enough to be seen
		time.Sleep(20 * time.Microsecond)
	}
	if code >= 500 {
		m.failed++
	}
}
func (m *vfPlainMeter) IsReady() bool { return m.n >= 0 }

func VerifC09Rebalancer() {
	clock.Freeze(time.Unix(1700000000, 0))
	us := vfURLs()
	rr, _ := New(vfNop{})
	rb, err := NewRebalancer(rr, RebalancerMeter(func() (Meter, error) { return &vfPlainMeter{}, nil }))
	verifAssert("rebalancer-ok", err == nil)
	_ = rb.UpsertServer(us[0], Weight(2))
	_ = rb.UpsertServer(us[2], Weight(1))
	verifShared(rb)
	serve := func() {
		rb.ServeHTTP(&verifRecorder{}, &http.Request{URL: &url.URL{Path: "/"}, Header: http.Header{}})
	}
	entries := []struct {
		name string
		f    func()
	}{
		{"ServeHTTP", serve},
		{"UpsertServer(existing)", func() { _ = rb.UpsertServer(us[0], Weight(3)) }},
		{"UpsertServer(new)", func() { _ = rb.UpsertServer(us[3], Weight(1)) }},
		{"RemoveServer", func() { _ = rb.RemoveServer(us[3]) }},
		{"Servers", func() { _ = rb.Servers() }},
	}
	for i := range entries {
		for j := i; j < len(entries); j++ {
			verifRacePair("rb:"+entries[i].name+"|"+entries[j].name, entries[i].f, entries[j].f)
		}
	}
	verifReach("end")
}
