package roundrobin

import (
	"net/url"
	"sync"
	"time"

	"github.com/vulcand/oxy/v2/internal/holsterv4/clock"
	"github.com/vulcand/oxy/v2/utils"
)

type vfMeter struct {
	rating float64
	ready  bool
}

func (m *vfMeter) Rating() float64            { return m.rating }
func (m *vfMeter) Record(int, time.Duration) {}
func (m *vfMeter) IsReady() bool              { return m.ready }

var vfRatings = []float64{0, 0.02, 0.5, 1}

// vfRebalancerState builds a rebalancer over a real RoundRobin in an arbitrary state
// satisfying the representation invariant J:
//   orig_i > 0  =>  1 <= cur_i <= max(4096, orig_i);   orig_i = 0  =>  cur_i = 0;
//   balancer weight of server i = cur_i; one shadow record per member.
func vfRebalancerState(n int, wmax int64) (*Rebalancer, *RoundRobin, []int64, []int64) {
	rr, _ := New(nil)
	rb := &Rebalancer{mtx: &sync.Mutex{}, next: rr, log: &utils.NoopLogger{}, errHandler: utils.DefaultHandler}
	rb.newMeter = func() (Meter, error) { return &vfMeter{}, nil }
	orig := make([]int64, n)
	cur := make([]int64, n)
	for i := 0; i < n; i++ {
		u := &url.URL{Scheme: "http", Host: verifName("s", i)}
		orig[i] = verifInt64(verifName("orig", i))
		cur[i] = verifInt64(verifName("cur", i))
		verifAssume(verifAnd(orig[i] >= 0, orig[i] <= wmax))
		capI := verifIteI64(orig[i] > FSMMaxWeight, orig[i], FSMMaxWeight)
		if wmax < FSMMaxWeight {
			capI = wmax * 4
		}
		verifAssume(verifIteBool(orig[i] > 0, verifAnd(cur[i] >= 1, cur[i] <= capI), cur[i] == 0))
		ri := verifInt(verifName("rating", i))
		verifAssume(verifAnd(ri >= 0, ri <= 3))
		m := &vfMeter{rating: vfRatings[verifConcretize(ri, 0, 3)], ready: verifBool(verifName("ready", i))}
		rb.servers = append(rb.servers, &rbServer{url: u, origWeight: int(orig[i]), curWeight: int(cur[i]), meter: m})
		rr.servers = append(rr.servers, &server{url: utils.CopyURL(u), weight: int(cur[i])})
	}
	rb.ratings = make([]float64, n)
	rb.backoffDuration = time.Duration(verifInt64("backoff"))
	verifAssume(verifAnd(rb.backoffDuration >= 1, rb.backoffDuration <= 1<<40))
	return rb, rr, orig, cur
}

// C10-O1: one adjustment from an arbitrary J-state.
func VerifC10Adjust() {
	n := verifParam("n")
	wmax := int64(verifParam("wmax"))
	now := verifClockInit("now")
	rb, rr, orig, cur := vfRebalancerState(n, wmax)
	if verifParam("stubgcd") == 1 {
		// normalisation is C10-O1b's subject; with divisor 1 it is the identity
		verifStub("(*github.com/vulcand/oxy/v2/roundrobin.Rebalancer).weightsGcd", func(rb *Rebalancer) int { return 1 })
	}
	// timer: either in the past or in the future of now
	toff := verifInt64("timerOffset")
	verifAssume(verifAnd(toff >= -(1<<41), toff <= 1<<41))
	rb.timer = now.Add(time.Duration(toff))
	timer0 := rb.timer
	allReady := true
	for _, s := range rb.servers {
		allReady = verifAnd(allReady, s.meter.IsReady())
	}

	rb.adjustWeights()

	changed := false
	sum0, sum1 := int64(0), int64(0)
	for i, s := range rb.servers {
		c1 := int64(s.curWeight)
		changed = verifOr(changed, c1 != cur[i])
		sum0 += cur[i]
		sum1 += c1
		capI := verifIteI64(orig[i] > FSMMaxWeight, orig[i], FSMMaxWeight)
		verifAssert("weight-range", verifIteBool(orig[i] > 0, verifAnd(c1 >= 1, c1 <= capI), c1 == 0))
		verifAssert("configured-weight-untouched", int64(s.origWeight) == orig[i])
		verifAssert("balancer-has-shadow-weight", int64(rr.servers[i].weight) == c1)
	}
	verifAssert("no-change-unless-ready", verifImp(changed, allReady))
	verifAssert("no-change-before-backoff-expired", verifImp(changed, timer0.Before(now)))
	// a change arms the back-off timer (so weights change at most once per interval); the
	// code may also arm it without an effective change (raising a zero weight), which is harmless
	armed := rb.timer.Equal(now.Add(rb.backoffDuration))
	verifAssert("change-arms-timer", verifIteBool(changed, armed, verifOr(armed, rb.timer.Equal(timer0))))
	// share clause: while some servers are rated as outliers, no outlier's share grows
	anyBad, anyGood := false, false
	for _, s := range rb.servers {
		anyBad = verifOr(anyBad, !s.good)
		anyGood = verifOr(anyGood, s.good)
	}
	if changed && anyBad && anyGood {
		for i, s := range rb.servers {
			if !s.good {
				verifAssert("outlier-share-does-not-grow", int64(s.curWeight)*sum0 <= cur[i]*sum1)
			}
		}
		verifReach("shifted")
	}
	// two-interval clause: the timer is never armed further ahead than one back-off interval
	// (change-arms-timer), so one interval after any instant it has expired; at the first
	// adjustment after that, with all meters ready and some but not all servers rated as
	// outliers, every outlier that carries traffic loses share — unless no other server can
	// still grow (each good server's weight x4 exceeds the cap, or is zero).
	canGrow := false
	for i, s := range rb.servers {
		canGrow = verifOr(canGrow, verifAnd(s.good, verifAnd(cur[i] > 0, cur[i]*FSMGrowFactor <= FSMMaxWeight)))
	}
	if verifAnd(verifAnd(allReady, timer0.Before(now)), verifAnd(verifAnd(anyBad, anyGood), canGrow)) {
		verifAssert("persistent-outlier-triggers-adjustment", changed)
		for i, s := range rb.servers {
			if verifAnd(!s.good, cur[i] > 0) {
				verifAssert("outlier-loses-share-unless-others-capped", int64(s.curWeight)*sum0 < cur[i]*sum1)
			}
		}
		verifReach("outlier-lost-share")
	}
	verifAssert("lock-released", verifLocksHeld() <= 0)
	verifReach("end")
}

// C10-O1b: normalisation divides every weight exactly (shares unchanged, nobody starves).
func VerifC10Normalize() {
	n := verifParam("n")
	rr, _ := New(nil)
	rb := &Rebalancer{mtx: &sync.Mutex{}, next: rr, log: &utils.NoopLogger{}}
	g := verifInt64("g")
	verifAssume(verifAnd(g >= 2, g <= 1<<13))
	verifStub("(*github.com/vulcand/oxy/v2/roundrobin.Rebalancer).weightsGcd", func(rb *Rebalancer) int { return int(g) })
	m := make([]int64, n)
	for i := 0; i < n; i++ {
		m[i] = verifInt64(verifName("m", i))
		verifAssume(verifAnd(m[i] >= 1, m[i] <= 1<<13))
		rb.servers = append(rb.servers, &rbServer{url: &url.URL{Host: verifName("s", i)}, curWeight: int(m[i] * g)})
	}
	rb.normalizeWeights()
	for i, s := range rb.servers {
		verifAssert("normalize-exact", int64(s.curWeight) == m[i])
	}
	verifReach("end")
}

// C10-O2: any membership or configured-weight change restores all configured weights.
func VerifC10Reset() {
	n := verifParam("n")
	now := verifClockInit("now")
	rb, rr, orig, _ := vfRebalancerState(n, 1<<13)
	rb.timer = now.Add(time.Duration(verifInt64("timerOffset")))
	op := verifConcretize(verifInt("op"), 0, 2)
	victim := verifConcretize(verifInt("victim"), 0, n-1)
	switch op {
	case 0: // add a new server
		err := rb.UpsertServer(&url.URL{Scheme: "http", Host: "new"}, Weight(3))
		verifAssert("upsert-ok", err == nil)
	case 1: // re-weight an existing one
		w := verifInt("w")
		verifAssume(verifAnd(w >= 0, w <= 1<<13))
		err := rb.UpsertServer(rb.servers[victim].url, Weight(w))
		verifAssert("upsert-ok", err == nil)
		orig[victim] = int64(w)
	case 2:
		err := rb.RemoveServer(rb.servers[victim].url)
		verifAssert("remove-ok", err == nil)
		orig = append(orig[:victim], orig[victim+1:]...)
	}
	for i, s := range rb.servers {
		if i < len(orig) {
			verifAssert("restored-configured-weight", verifAnd(int64(s.curWeight) == orig[i], int64(s.origWeight) == orig[i]))
		}
		w, ok := rr.ServerWeight(s.url)
		verifAssert("balancer-restored", verifAnd(ok, w == s.curWeight))
	}
	verifAssert("timer-expired-after-reset", rb.timer.Before(clock.Now().UTC()))
	verifReach("end")
}

// C10-O3: bounded convergence through the API. Two servers with symbolic configured
// weights; `a` adjustments with symbolic outlier patterns; then six adjustments with equal
// ratings: the weights are back in the configured proportions.
func VerifC10Converge() {
	a := verifParam("a")
	wmax := verifParam("wmax")
	verifClockInit("t0")
	rr, _ := New(nil)
	var meters []*vfMeter
	rb, err := NewRebalancer(rr, RebalancerBackoff(time.Second), RebalancerMeter(func() (Meter, error) {
		m := &vfMeter{ready: true}
		meters = append(meters, m)
		return m, nil
	}))
	verifAssert("rebalancer-ok", err == nil)
	n := 2
	orig := make([]int, n)
	for i := 0; i < n; i++ {
		w := verifInt(verifName("w", i))
		verifAssume(verifAnd(w >= 1, w <= wmax))
		orig[i] = verifConcretize(w, 1, wmax)
		verifAssert("upsert-ok", rb.UpsertServer(&url.URL{Scheme: "http", Host: verifName("s", i)}, Weight(orig[i])) == nil)
	}
	for step := 0; step < a; step++ {
		bad := verifInt(verifName("bad", step)) // which server is the outlier (-1: none)
		verifAssume(verifAnd(bad >= -1, bad < n))
		bad = verifConcretize(bad, -1, n-1)
		for i, s := range rb.servers {
			s.meter.(*vfMeter).rating = 0
			if i == bad {
				s.meter.(*vfMeter).rating = 1
			}
		}
		clock.Advance(2 * time.Second)
		rb.adjustWeights()
	}
	for step := 0; step < 6; step++ {
		for _, s := range rb.servers {
			s.meter.(*vfMeter).rating = 0.1
		}
		clock.Advance(2 * time.Second)
		rb.adjustWeights()
	}
	w0, ok0 := rr.ServerWeight(rb.servers[0].url)
	w1, ok1 := rr.ServerWeight(rb.servers[1].url)
	verifAssert("weights-present", verifAnd(ok0, ok1))
	verifAssert("converged-to-configured-proportions", w0*orig[1] == w1*orig[0])
	verifReach("end")
}
