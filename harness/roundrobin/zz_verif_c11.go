package roundrobin

import (
	"crypto/cipher"
	"crypto/rand"
	"errors"
	"net/http"
	"net/url"
	"time"

	"github.com/vulcand/oxy/v2/internal/holsterv4/clock"
	"github.com/vulcand/oxy/v2/roundrobin/stickycookie"
)

// ---- stand-ins for AES-GCM (real crypto is outside the reach of the encoder) -----------------
type vfBlock struct{ key string }

func (b *vfBlock) BlockSize() int          { return 16 }
func (b *vfBlock) Encrypt(dst, src []byte) {}
func (b *vfBlock) Decrypt(dst, src []byte) {}

type vfAEAD struct{ key string }

func (a *vfAEAD) NonceSize() int { return 12 }
func (a *vfAEAD) Overhead() int  { return 0 }
func (a *vfAEAD) Seal(dst, nonce, plaintext, ad []byte) []byte {
	out := append(dst, []byte("ENC<"+a.key+">")...)
	return append(out, plaintext...)
}
func (a *vfAEAD) Open(dst, nonce, ct, ad []byte) ([]byte, error) {
	p := "ENC<" + a.key + ">"
	if len(ct) < len(p) || string(ct[:len(p)]) != p {
		return nil, errors.New("cipher: message authentication failed")
	}
	return append(dst, ct[len(p):]...), nil
}

type vfZeroReader struct{}

func (vfZeroReader) Read(p []byte) (int, error) {
	for i := range p {
		p[i] = 7
	}
	return len(p), nil
}

func vfCryptoStubs() {
	if verifSymbolic() {
		verifStub("crypto/aes.NewCipher", func(key []byte) (cipher.Block, error) { return &vfBlock{key: string(key)}, nil })
		verifStub("crypto/cipher.NewGCM", func(b cipher.Block) (cipher.AEAD, error) { return &vfAEAD{key: b.(*vfBlock).key}, nil })
		rand.Reader = vfZeroReader{}
	}
}

// server URL universe: userinfo, query (with the ttl separator '|'), port, escaped path
func vfStickyURLs() []*url.URL {
	return []*url.URL{
		{Scheme: "http", Host: "a:80", Path: "/x"},
		{Scheme: "http", Host: "b:81", Path: "/y", User: url.UserPassword("u", "p"), RawQuery: "q=1|2"},
		{Scheme: "https", Host: "c", Path: "/a/b", RawPath: "/a%2Fb"},
		{Scheme: "http", Host: "a:80", Path: "/z?w#f%", RawPath: "/z%3Fw%23f%25"},
		{Scheme: "http", Host: "a:81", Path: "/x"}, // differs from the first in the port only
	}
}

func vfCodec(kind int) (stickycookie.CookieValue, time.Duration) {
	key := []byte("0123456789abcdef")
	switch kind {
	case 0:
		return &stickycookie.RawValue{}, 0
	case 1:
		return &stickycookie.HashValue{Salt: "salt"}, 0
	case 2:
		v, err := stickycookie.NewAESValue(key, 0)
		verifAssert("aes-ok", err == nil)
		return v, 0
	case 3:
		v, err := stickycookie.NewAESValue(key, 10*time.Second)
		verifAssert("aes-ok", err == nil)
		return v, 10 * time.Second
	case 4:
		v, err := stickycookie.NewFallbackValue(&stickycookie.RawValue{}, &stickycookie.HashValue{Salt: "salt"})
		verifAssert("fallback-ok", err == nil)
		return v, 0
	}
	a, err := stickycookie.NewAESValue(key, 10*time.Second)
	verifAssert("aes-ok", err == nil)
	v, err := stickycookie.NewFallbackValue(&stickycookie.HashValue{Salt: "salt"}, a)
	verifAssert("fallback-ok", err == nil)
	return v, 10 * time.Second
}

// C11-O1/O2: every codec finds the member a cookie was issued for, and never a non-member.
func VerifC11Codec() {
	vfCryptoStubs()
	clock.Freeze(time.Unix(1700000000, 0))
	kind := verifParam("kind")
	codec, ttl := vfCodec(kind)
	us := vfStickyURLs()
	var pool []*url.URL
	var inPool [5]bool
	for i := range us {
		if verifBool(verifName("member", i)) {
			pool = append(pool, us[i])
			inPool[i] = true
		}
	}
	verifAssume(len(pool) >= 1)
	for i, u := range us {
		v := codec.Get(u)
		if ttl > 0 {
			// still within the cookie's lifetime (whole seconds; the ttl is stored in seconds)
			wait := verifInt(verifName("wait", i))
			verifAssume(verifOr(wait == 0, wait == 9)) // fresh, or one second before it expires
			clock.Advance(time.Duration(verifConcretize(wait, 0, 9)) * time.Second)
		}
		found, err := codec.FindURL(v, pool)
		if inPool[i] {
			verifAssert("cookie-finds-its-server", verifAnd(err == nil, found == u))
		} else {
			verifAssert("non-member-cookie-finds-nothing", found == nil)
		}
		if ttl > 0 {
			clock.Advance(11 * time.Second)
			found, _ = codec.FindURL(v, pool)
			verifAssert("expired-cookie-finds-nothing", found == nil)
		}
	}
	for _, bad := range []string{"", "garbage", "http://", "%zz", "aHR0cDovL2E6ODAveA"} {
		found, _ := codec.FindURL(bad, pool)
		verifAssert("malformed-cookie-finds-nothing", found == nil)
	}
	verifReach("end")
}

// C11-O3: routing through both balancers.
func VerifC11Routing() {
	vfCryptoStubs()
	clock.Freeze(time.Unix(1700000000, 0))
	kind := verifParam("kind")
	codec, _ := vfCodec(kind)
	us := vfStickyURLs()
	down := &vfDownstream{mutate: true}
	sticky := NewStickySession("sid").SetCookieValue(codec)
	rr, err := New(down, EnableStickySession(sticky))
	verifAssert("new-ok", err == nil)
	var serve func(w http.ResponseWriter, r *http.Request) = rr.ServeHTTP
	var pool vfPool = rr
	if verifParam("rebalancer") == 1 {
		rb, err := NewRebalancer(rr, RebalancerStickySession(sticky), RebalancerMeter(func() (Meter, error) { return vfIdleMeter{}, nil }))
		verifAssert("rb-ok", err == nil)
		serve, pool = rb.ServeHTTP, rb
	}
	us = us[1:] // members: userinfo+query, escaped slash, escaped ?#% — the plain one is not needed here
	for i := 0; i < 3; i++ {
		w := verifInt(verifName("w", i))
		verifAssume(verifAnd(w >= 1, w <= 3))
		verifAssert("upsert-ok", pool.UpsertServer(us[i], Weight(verifConcretize(w, 1, 3))) == nil)
	}
	// arbitrary rotation state
	warm := verifInt("warm")
	verifAssume(verifAnd(warm >= 0, warm <= 3))
	for k := 0; k < verifConcretize(warm, 0, 3); k++ {
		_, _ = rr.NextServer()
	}
	target := verifConcretize(verifInt("target"), 0, 2)
	verifAssume(verifInt("target") == target)
	// 1. first request without cookie: balanced normally, gets a cookie for the chosen server
	rec := &verifRecorder{}
	serve(rec, &http.Request{URL: &url.URL{Path: "/r"}, Header: http.Header{}})
	verifAssert("no-cookie-is-served", verifAnd(down.calls == 1, len(rec.Codes) == 1))
	first := down.seen
	setCookie := rec.Header().Get("Set-Cookie")
	verifAssert("fresh-cookie-issued", setCookie != "")
	// 2. a request carrying the cookie issued for `target` goes to target, whatever the rotation
	// state and the weights (also when the server is drained to weight 0 but still a member)
	if verifBool("drainTarget") {
		verifAssert("reweight-ok", pool.UpsertServer(us[target], Weight(0)) == nil)
	}
	cookie := &http.Cookie{Name: "sid", Value: codec.Get(us[target])}
	req := &http.Request{URL: &url.URL{Path: "/r"}, Header: http.Header{}}
	req.AddCookie(cookie)
	rec2 := &verifRecorder{}
	serve(rec2, req)
	verifAssert("sticky-request-served", down.calls == 2)
	verifAssert("sticky-request-goes-to-its-server", vfSameURL(down.seen, us[target]))
	// nothing the downstream handler did to the URL it was handed changed the pool (C02)
	for _, s := range pool.Servers() {
		verifAssert("pool-urls-unchanged-on-sticky-path", verifAnd(s.Host != "evil", s.Scheme != "ftp"))
	}
	// 3. the server is removed: the same cookie is balanced normally among the members
	verifAssert("remove-ok", pool.RemoveServer(us[target]) == nil)
	req3 := &http.Request{URL: &url.URL{Path: "/r"}, Header: http.Header{}}
	req3.AddCookie(cookie)
	rec3 := &verifRecorder{}
	serve(rec3, req3)
	verifAssert("stale-cookie-still-served", verifAnd(down.calls == 3, len(rec3.Codes) == 1))
	verifAssert("stale-cookie-goes-to-a-member", verifAnd(!vfSameURL(down.seen, us[target]), vfIdentOfSticky(us, down.seen) >= 0))
	verifAssert("stale-cookie-gets-fresh-cookie", rec3.Header().Get("Set-Cookie") != "")
	// 4. a cookie nobody issued (garbage, undecodable, a non-member's) is not an error: the
	// request is balanced normally and answered with a fresh cookie, through either balancer
	bad := []string{"garbage", "%zz", "aHR0cDovL2E6ODAveA", "", "ENC<other-key>http://b:81/y"}[verifConcretize(verifInt("badCookie"), 0, 4)]
	req4 := &http.Request{URL: &url.URL{Path: "/r"}, Header: http.Header{}}
	req4.AddCookie(&http.Cookie{Name: "sid", Value: bad})
	rec4 := &verifRecorder{}
	serve(rec4, req4)
	verifAssert("unknown-cookie-still-served", verifAnd(down.calls == 4, verifAnd(len(rec4.Codes) == 1, rec4.code(0) == http.StatusOK)))
	verifAssert("unknown-cookie-goes-to-a-member", verifAnd(!vfSameURL(down.seen, us[target]), vfIdentOfSticky(us, down.seen) >= 0))
	verifAssert("unknown-cookie-gets-fresh-cookie", rec4.Header().Get("Set-Cookie") != "")
	_ = first
	verifReach("end")
}

func vfIdentOfSticky(us []*url.URL, u *url.URL) int {
	for i := range us {
		if vfSameURL(us[i], u) {
			return i
		}
	}
	return -1
}
