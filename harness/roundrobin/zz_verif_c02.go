package roundrobin

import (
	"errors"
	"net/http"
	"net/url"
	"time"
)

// URL universe: identity is (scheme, host, path). u0 and u1 have the same identity and
// differ in userinfo and query; u2 differs in path, u3 in scheme.
func vfURLs() []*url.URL {
	return []*url.URL{
		{Scheme: "http", Host: "a:80", Path: "/"},
		{Scheme: "http", Host: "a:80", Path: "/", User: url.UserPassword("u", "p"), RawQuery: "q=1"},
		{Scheme: "http", Host: "a:80", Path: "/x"},
		{Scheme: "https", Host: "a:80", Path: "/"},
	}
}

var vfIdent = []int{0, 0, 1, 2} // identity class of each URL of the universe
var vfRep = []int{0, 2, 3}     // a representative URL per identity class

type vfPool interface {
	Servers() []*url.URL
	ServeHTTP(w http.ResponseWriter, req *http.Request)
	RemoveServer(u *url.URL) error
	UpsertServer(u *url.URL, options ...ServerOption) error
}

var errVfMeter = errors.New("no meter")

type vfIdleMeter struct{}

func (vfIdleMeter) Rating() float64            { return 0 }
func (vfIdleMeter) Record(int, time.Duration) {}
func (vfIdleMeter) IsReady() bool              { return false }

// downstream handler: counts calls, remembers where it was sent, and scribbles on the URL
type vfDownstream struct {
	calls  int
	seen   *url.URL
	mutate bool
}

func (d *vfDownstream) ServeHTTP(w http.ResponseWriter, r *http.Request) {
	d.calls++
	c := *r.URL
	d.seen = &c
	if d.mutate {
		r.URL.Host = "evil"
		r.URL.Path = "/mutated"
		r.URL.Scheme = "ftp"
	}
	w.WriteHeader(http.StatusOK)
}

func vfIdentOf(us []*url.URL, u *url.URL) int {
	for id, r := range vfRep {
		if vfSameURL(us[r], u) {
			return id
		}
	}
	return -1
}

// reference model of the pool
type vfRef struct {
	member [3]bool
	weight [3]int
	count  int
}

func vfCheckPool(p vfPool, rr *RoundRobin, us []*url.URL, ref *vfRef) {
	servers := p.Servers()
	verifAssert("pool-size", len(servers) == ref.count)
	var present [3]int
	for _, s := range servers {
		id := vfIdentOf(us, s)
		verifAssert("pool-only-known-servers", id >= 0)
		if id >= 0 {
			present[id]++
		}
	}
	for id := 0; id < 3; id++ {
		want := 0
		if ref.member[id] {
			want = 1
		}
		verifAssert("pool-membership", present[id] == want)
		w, ok := rr.ServerWeight(us[vfRep[id]])
		if ref.member[id] {
			verifAssert("weight-of-member", verifAnd(ok, w == ref.weight[id]))
		} else {
			verifAssert("weight-of-non-member", verifAnd(!ok, w == -1))
		}
	}
}

// one full rotation: only positive-weight members are chosen, each at least once
func vfCheckRotation(p vfPool, next func() (*url.URL, error), us []*url.URL, ref *vfRef, down *vfDownstream, viaHTTP bool, failedRemoveAt int) {
	total := 0
	for id := 0; id < 3; id++ {
		if ref.member[id] {
			total += ref.weight[id]
		}
	}
	if total == 0 {
		// empty or all-zero pool: every selection fails and no request is forwarded
		for k := 0; k < 2*ref.count+2; k++ {
			_, err := next()
			verifAssert("empty-pool-next-error", err != nil)
			rec := &verifRecorder{}
			before := down.calls
			p.ServeHTTP(rec, &http.Request{URL: &url.URL{Path: "/req"}, Header: http.Header{}})
			verifAssert("empty-pool-not-forwarded", down.calls == before)
			verifAssert("empty-pool-error-response", verifAnd(len(rec.Codes) == 1, rec.code(0) >= 500))
		}
		return
	}
	var hits [3]int
	for k := 0; k < total; k++ {
		if k == failedRemoveAt {
			// a remove of an unknown server in mid-rotation fails and changes nothing: the
			// rotation below still reaches every positive-weight member
			for id := 0; id < 3; id++ {
				if !ref.member[id] {
					verifAssert("remove-unknown-fails", p.RemoveServer(us[vfRep[id]]) != nil)
					break
				}
			}
		}
		var u *url.URL
		if viaHTTP {
			before := down.calls
			rec := &verifRecorder{}
			p.ServeHTTP(rec, &http.Request{URL: &url.URL{Path: "/req"}, Header: http.Header{}})
			verifAssert("request-forwarded-once", down.calls == before+1)
			u = down.seen
		} else {
			var err error
			u, err = next()
			verifAssert("next-ok", err == nil)
		}
		if u == nil {
			verifStop()
		}
		id := vfIdentOf(us, u)
		verifAssert("traffic-only-to-members", verifAnd(id >= 0, id < 3))
		if id < 0 {
			verifStop()
		}
		verifAssert("traffic-only-to-positive-weight-members", verifAnd(ref.member[id], ref.weight[id] > 0))
		hits[id]++
	}
	for id := 0; id < 3; id++ {
		if ref.member[id] && ref.weight[id] > 0 {
			verifAssert("member-selected-within-one-rotation", hits[id] >= 1)
		}
	}
}

// C02-O2: histories of k administration calls (symbolic operation, URL and weight) on the
// plain balancer (kind=0) or through the rebalancer (kind=1), checked against the reference
// model after every call; then one rotation of requests, via NextServer or ServeHTTP with a
// downstream handler that rewrites the URL it was handed.
func VerifC02History() {
	kind := verifParam("kind")
	k := verifParam("k")
	us := vfURLs()
	down := &vfDownstream{mutate: true}
	rr, err := New(down)
	verifAssert("new-ok", err == nil)
	var p vfPool = rr
	meterFail := false
	if kind == 1 {
		rb, err := NewRebalancer(rr, RebalancerMeter(func() (Meter, error) {
			if meterFail {
				return nil, errVfMeter
			}
			return vfIdleMeter{}, nil
		}))
		verifAssert("new-rebalancer-ok", err == nil)
		p = rb
	}
	ref := &vfRef{}
	clockInit := verifClockInit("t0")
	_ = clockInit
	// optional preloaded members with symbolic weights 0..2 (add, then re-weight)
	for i := 0; i < verifParam("pre"); i++ {
		wv := verifInt(verifName("pw", i))
		verifAssume(verifAnd(wv >= 0, wv <= 2))
		w := verifConcretize(wv, 0, 2)
		u := us[vfRep[i]]
		e1 := p.UpsertServer(u)
		e2 := p.UpsertServer(u, Weight(w))
		verifAssert("preload-ok", verifAnd(e1 == nil, e2 == nil))
		ref.member[i], ref.weight[i] = true, w
		ref.count++
	}
	// mode 0: plain histories, rotation via NextServer or ServeHTTP (symbolic);
	// mode 1: a failing remove of an unknown server at a symbolic point in mid-rotation;
	// mode 2: the rebalancer's meter factory fails at one symbolic step.
	mode := verifParam("mode")
	mfStep := -1
	if mode == 2 {
		mv := verifInt("meterFailStep")
		verifAssume(verifAnd(mv >= 0, mv < k))
		mfStep = verifConcretize(mv, 0, k-1)
	}
	for step := 0; step < k; step++ {
		opv := verifInt(verifName("op", step))
		verifAssume(verifAnd(opv >= 0, opv <= 2))
		op := verifConcretize(opv, 0, 2)
		uv := verifInt(verifName("u", step))
		verifAssume(verifAnd(uv >= 0, uv <= 3))
		ui := verifConcretize(uv, 0, 3)
		if step == 0 {
			verifAssume(op == verifParam("op0"))
		}
		u := us[ui]
		id := vfIdent[ui]
		meterFail = kind == 1 && step == mfStep
		switch op {
		case 0: // upsert with explicit weight
			wv := verifInt(verifName("w", step))
			verifAssume(verifAnd(wv >= 0, wv <= 2))
			w := verifConcretize(wv, 0, 2)
			err := p.UpsertServer(u, Weight(w))
			if meterFail && !ref.member[id] {
				// the add failed half-way (no meter): the server is not a member
				verifAssert("failed-add-reports-error", err != nil)
				break
			}
			verifAssert("upsert-ok", err == nil)
			if ref.member[id] {
				ref.weight[id] = w
			} else {
				ref.member[id] = true
				ref.count++
				ref.weight[id] = w
				if w == 0 {
					ref.weight[id] = 1 // a new server with weight 0 gets the default weight
				}
			}
		case 1: // upsert without options
			err := p.UpsertServer(u)
			if meterFail && !ref.member[id] {
				verifAssert("failed-add-reports-error", err != nil)
				break
			}
			verifAssert("upsert-ok", err == nil)
			if !ref.member[id] {
				ref.member[id] = true
				ref.count++
				ref.weight[id] = 1
			}
		case 2:
			err := p.RemoveServer(u)
			if ref.member[id] {
				verifAssert("remove-member-ok", err == nil)
				ref.member[id] = false
				ref.weight[id] = 0
				ref.count--
			} else {
				verifAssert("remove-unknown-fails", err != nil)
			}
		}
		meterFail = false
		vfCheckPool(p, rr, us, ref)
	}
	viaHTTP, failedRemoveAt := false, -1
	switch mode {
	case 0:
		viaHTTP = verifBool("viaHTTP")
	case 1:
		fr := verifInt("failedRemoveAt")
		verifAssume(verifAnd(fr >= 1, fr <= 2))
		failedRemoveAt = verifConcretize(fr, 1, 2)
	}
	vfCheckRotation(p, rr.NextServer, us, ref, down, viaHTTP, failedRemoveAt)
	// nothing the downstream handler did to its request changed the pool
	vfCheckPool(p, rr, us, ref)
	for _, s := range p.Servers() {
		verifAssert("pool-urls-unchanged", verifAnd(s.Host == "a:80", s.Scheme != "ftp"))
	}
	verifReach("end")
}

// server identity as the property defines it: (scheme, host, path)
func vfSameURL(a, b *url.URL) bool {
	return a.Scheme == b.Scheme && a.Host == b.Host && a.Path == b.Path
}
