package cbreaker

import (
	"errors"
	"time"

	"github.com/vulcand/oxy/v2/memmetrics"
	"github.com/vulcand/oxy/v2/utils"
	"github.com/vulcand/predicate"
)

var vfDef predicate.Def

// C18-O1: semantics of the condition expression. The operator table and function map are
// captured as parseExpression builds them; every comparison over every metric function, and
// and/or of two such atoms, is evaluated through the captured table on symbolic metric values
// and symbolic constants and compared with the standard reading.
func VerifC18Expr() {
	if verifSymbolic() {
		verifStub("github.com/vulcand/predicate.NewParser", func(d predicate.Def) (predicate.Parser, error) {
			vfDef = d
			return nil, errors.New("table captured")
		})
		_, _ = parseExpression("NetworkErrorRatio() > 0.5")
	} else {
		// native replay: the table as documented (a mis-wired table then fails to replay)
		vfDef = predicate.Def{
			Operators: predicate.Operators{AND: and, OR: or, EQ: eq, NEQ: neq, LT: lt, LE: le, GT: gt, GE: ge},
			Functions: map[string]interface{}{"LatencyAtQuantileMS": latencyAtQuantile, "NetworkErrorRatio": networkErrorRatio, "ResponseCodeRatio": responseCodeRatio},
		}
	}
	// symbolic metric values behind the three metric functions
	ner := verifF64("ner")
	rcr := verifF64("rcr")
	latNS := verifInt64("latNS")
	verifAssume(verifAnd(latNS >= 0, latNS <= 3600000000000))
	lat := latNS / int64(time.Millisecond)
	verifAssume(verifAnd(ner >= 0, ner <= 1))
	verifAssume(verifAnd(rcr >= 0, rcr <= 1000))
	verifStub("(*github.com/vulcand/oxy/v2/memmetrics.RTMetrics).NetworkErrorRatio", func(m *memmetrics.RTMetrics) float64 { return ner })
	verifStub("(*github.com/vulcand/oxy/v2/memmetrics.RTMetrics).ResponseCodeRatio", func(m *memmetrics.RTMetrics, a, b, c, d int) float64 { return rcr })
	verifStub("(*github.com/vulcand/oxy/v2/memmetrics.RTMetrics).LatencyHistogram", func(m *memmetrics.RTMetrics) (*memmetrics.HDRHistogram, error) {
		return &memmetrics.HDRHistogram{}, nil
	})
	verifStub("(*github.com/vulcand/oxy/v2/memmetrics.HDRHistogram).LatencyAtQuantile", func(h *memmetrics.HDRHistogram, q float64) time.Duration {
		return time.Duration(latNS)
	})
	cb := &CircuitBreaker{log: &utils.NoopLogger{}, metrics: &memmetrics.RTMetrics{}}

	fns := vfDef.Functions
	nerFn := fns["NetworkErrorRatio"].(func() toFloat64)()
	rcrFn := fns["ResponseCodeRatio"].(func(int, int, int, int) toFloat64)(500, 600, 0, 600)
	latFn := fns["LatencyAtQuantileMS"].(func(float64) toInt)(50.0)
	if verifSymbolic() {
		// wiring of the function map to the metrics (the metric values come from stubs here)
		verifAssert("function-map-wiring", verifAnd(verifAnd(nerFn(cb) == ner, rcrFn(cb) == rcr), latFn(cb) == int(lat)))
	}
	// the operators are exercised on mappers returning the symbolic values directly, so that a
	// counterexample replays natively without stubs
	nerFn = func(c *CircuitBreaker) float64 { return ner }
	rcrFn = func(c *CircuitBreaker) float64 { return rcr }
	latFn = func(c *CircuitBreaker) int { return int(lat) }

	cf := verifF64("constF")
	verifAssume(verifAnd(cf >= -1, cf <= 1001))
	ci := int(verifInt64("constI"))
	verifAssume(verifAnd(ci >= -1, ci <= 3600001))

	type cmp func(interface{}, interface{}) (hpredicate, error)
	ops := []struct {
		name string
		f    interface{}
	}{{"EQ", vfDef.Operators.EQ}, {"NEQ", vfDef.Operators.NEQ}, {"LT", vfDef.Operators.LT}, {"LE", vfDef.Operators.LE}, {"GT", vfDef.Operators.GT}, {"GE", vfDef.Operators.GE}}
	refF := func(op string, x, c float64) bool {
		switch op {
		case "EQ":
			return x == c
		case "NEQ":
			return x != c
		case "LT":
			return x < c
		case "LE":
			return x <= c
		case "GT":
			return x > c
		}
		return x >= c
	}
	refI := func(op string, x, c int) bool {
		switch op {
		case "EQ":
			return x == c
		case "NEQ":
			return x != c
		case "LT":
			return x < c
		case "LE":
			return x <= c
		case "GT":
			return x > c
		}
		return x >= c
	}
	var atoms []hpredicate
	var refs []bool
	for _, o := range ops {
		f, ok := o.f.(func(interface{}, interface{}) (hpredicate, error))
		verifAssert("operator-present", ok)
		if !ok {
			verifStop()
		}
		p1, e1 := f(nerFn, cf)
		p2, e2 := f(rcrFn, cf)
		p3, e3 := f(latFn, ci)
		verifAssert("operator-builds", verifAnd(verifAnd(e1 == nil, e2 == nil), e3 == nil))
		verifAssert("compare-network-error-ratio", p1(cb) == refF(o.name, ner, cf))
		verifAssert("compare-response-code-ratio", p2(cb) == refF(o.name, rcr, cf))
		verifAssert("compare-latency-quantile", p3(cb) == refI(o.name, int(lat), ci))
		atoms = append(atoms, p1, p3)
		refs = append(refs, refF(o.name, ner, cf), refI(o.name, int(lat), ci))
	}
	andF, okA := vfDef.Operators.AND.(func(...hpredicate) hpredicate)
	orF, okO := vfDef.Operators.OR.(func(...hpredicate) hpredicate)
	verifAssert("and-or-present", verifAnd(okA, okO))
	if okA && okO {
		for i := 0; i < len(atoms); i++ {
			for j := i + 1; j < len(atoms); j += 3 {
				verifAssert("and-semantics", andF(atoms[i], atoms[j])(cb) == verifAnd(refs[i], refs[j]))
				verifAssert("or-semantics", orF(atoms[i], atoms[j])(cb) == verifOr(refs[i], refs[j]))
			}
		}
		// nesting
		verifAssert("nested-semantics", orF(andF(atoms[0], atoms[3]), atoms[5])(cb) == verifOr(verifAnd(refs[0], refs[3]), refs[5]))
	}
	verifReach("end")
}
