package cbreaker

import (
	"net/http"
	"sync"
	"time"

	"github.com/vulcand/oxy/v2/internal/holsterv4/clock"
	"github.com/vulcand/oxy/v2/memmetrics"
	"github.com/vulcand/oxy/v2/utils"
)

type vfEffect struct {
	mu sync.Mutex
	n  int
}

func (e *vfEffect) Exec() error { e.mu.Lock(); e.n++; e.mu.Unlock(); return nil }
func (e *vfEffect) get() int    { e.mu.Lock(); defer e.mu.Unlock(); return e.n }

// ghost state of the history harness
type vfGhost struct {
	cb        *CircuitBreaker
	entered   int
	calls     int
	depth     int
	maxDepth  int
	tripAt    time.Time // instant of the last transition into tripped
	trips     int       // transitions into tripped
	standbys  int       // recovering -> standby transitions
	evals     int       // condition evaluations
	lastCond  bool
	records   int // metrics.Record calls
	resets    int // metrics.Reset calls
	stateIn   []cbState
	recoverAt time.Time // instant of the last transition into recovering
	ramp      int
}

var vfG *vfGhost

// the protected handler
func (g *vfGhost) ServeHTTP(w http.ResponseWriter, r *http.Request) {
	id := g.calls
	g.calls++
	g.entered++
	g.stateIn = append(g.stateIn, g.cb.state)
	g.depth++
	if g.depth < g.maxDepth && verifBool(verifName("overlap", id)) {
		vfArrive(g, verifName("in", id))
	}
	g.depth--
	_ = verifAdvance(verifName("lat", id), 1<<41)
	if verifBool(verifName("bad", id)) {
		w.WriteHeader(http.StatusBadGateway)
	} else {
		w.WriteHeader(http.StatusOK)
	}
	// completion: everything from here to the return of ServeHTTP is checkAndSet
	vfCompletionPre(g)
}

type vfPre struct {
	state     cbState
	until     time.Time
	lastCheck time.Time
	evals     int
	now       time.Time
	resets    int
	records   int
}

var vfPending []vfPre

func vfCompletionPre(g *vfGhost) {
	cb := g.cb
	vfPending = append(vfPending, vfPre{cb.state, cb.until, cb.lastCheck, g.evals, clock.Now().UTC(), g.resets, g.records})
}

func vfNewBreaker(g *vfGhost) *CircuitBreaker {
	// Metrics are not the subject here (C17/C18-O2 own them): Record/Reset are counted only.
	verifStub("github.com/vulcand/oxy/v2/memmetrics.NewRTMetrics", func(opts []any) (*memmetrics.RTMetrics, error) { return &memmetrics.RTMetrics{}, nil })
	verifStub("(*github.com/vulcand/oxy/v2/memmetrics.RTMetrics).Record", func(m *memmetrics.RTMetrics, code int, d time.Duration) { vfG.records++ })
	verifStub("(*github.com/vulcand/oxy/v2/memmetrics.RTMetrics).Reset", func(m *memmetrics.RTMetrics) { vfG.resets++ })
	// The ramp decision is C12's subject (VerifC12*): here its outcome is an arbitrary bool,
	// restricted to what the real controller can do at all: the first request of a recovery
	// is always refused (fraction 1/1), and nothing passes while the ramp is still (almost) zero.
	// vfArrive steers the real controller to the same outcome in native replays.
	verifStub("(*github.com/vulcand/oxy/v2/cbreaker.ratioController).allowRequest", func(r *ratioController) bool {
		vfG.ramp++
		res := verifBool(verifName("allow", vfG.ramp))
		el := clock.Now().UTC().Sub(r.start)
		if (r.allowed == 0 && r.denied == 0) || el <= r.duration>>18 {
			res = false
		}
		if res {
			r.allowed++
		} else {
			r.denied++
		}
		return res
	})
	mt, err := memmetrics.NewRTMetrics()
	verifAssert("metrics-ok", err == nil)
	cb := &CircuitBreaker{m: &sync.RWMutex{}, next: g, fallback: defaultFallback, log: &utils.NoopLogger{}, metrics: mt}
	cb.fallbackDuration = time.Duration(verifInt64("fallbackDuration"))
	cb.recoveryDuration = time.Duration(verifInt64("recoveryDuration"))
	cb.checkPeriod = time.Duration(verifInt64("checkPeriod"))
	verifAssume(verifAnd(cb.fallbackDuration >= 1, cb.fallbackDuration <= 1<<40))
	verifAssume(verifAnd(cb.recoveryDuration >= 1, cb.recoveryDuration <= 1<<40))
	verifAssume(verifAnd(cb.checkPeriod >= 1, cb.checkPeriod <= 1<<40))
	cb.condition = func(c *CircuitBreaker) bool {
		vfG.evals++
		vfG.lastCond = verifBool(verifName("cond", vfG.evals))
		return vfG.lastCond
	}
	g.cb = cb
	return cb
}

// vfArrive sends one request through the breaker and checks what C05 / C12-O3 / C18-O3 say
// about its arrival (activateFallback) and its completion (checkAndSet).
func vfArrive(g *vfGhost, tag string) {
	cb := g.cb
	s0, until0 := cb.state, cb.until
	trip0 := g.tripAt // nested requests may trip again before we get to check the arrival
	now := clock.Now().UTC()
	before := g.entered
	nIn := len(g.stateIn)
	if s0 == stateRecovering && cb.rc != nil {
		// steer the ramp controller towards the decision number ramp+1 of the valuation
		// (under the engine the stub above decides; natively the real float code runs)
		if verifBool(verifName("allow", g.ramp+1)) {
			cb.rc.allowed, cb.rc.denied = 0, 1<<30
		} else {
			cb.rc.allowed, cb.rc.denied = 1<<30, 0
		}
	}
	var rcBefore *ratioController
	sumBefore := 0
	if cb.rc != nil {
		rcBefore, sumBefore = cb.rc, cb.rc.allowed+cb.rc.denied
	}
	rec := &verifRecorder{}
	cb.ServeHTTP(rec, &http.Request{Header: http.Header{}})
	passed := g.entered > before
	if !verifSymbolic() && cb.rc != nil && (cb.rc != rcBefore || cb.rc.allowed+cb.rc.denied != sumBefore) && g.depth == 0 {
		g.ramp++ // native bookkeeping of the number of ramp decisions made so far
	}

	// ---- arrival: transition s0 -> s1 happened at `now`
	s1 := cb.state
	if passed {
		s1 = g.stateIn[nIn]
	}
	okA := s1 == s0 || (s0 == stateTripped && s1 == stateRecovering) || (s0 == stateRecovering && s1 == stateStandby)
	verifAssert("arrival-transition-legal", okA)
	if s0 == stateTripped {
		verifAssert("until-is-trip-plus-fallback", until0.Equal(trip0.Add(cb.fallbackDuration)))
		if now.Before(trip0.Add(cb.fallbackDuration)) {
			verifAssert("tripped-shields-backend", !passed)
			verifAssert("tripped-answers-fallback", verifAnd(len(rec.Codes) == 1, rec.code(0) == http.StatusServiceUnavailable))
			verifAssert("tripped-stays-tripped", verifAnd(cb.state == stateTripped, cb.until.Equal(until0)))
			verifAssert("tripped-no-transition", s1 == stateTripped)
		} else if now.After(trip0.Add(cb.fallbackDuration)) {
			// after the fallback period traffic is re-admitted gradually (C12): recovery starts
			verifAssert("fallback-elapsed-starts-recovery", s1 == stateRecovering)
		}
	}
	if s0 == stateStandby {
		verifAssert("standby-passes", passed)
	}
	if s0 == stateTripped && s1 == stateRecovering {
		g.recoverAt = now
		// C12: every recovery starts its ramp afresh: the controller counts from this instant,
		// over the configured duration, and has decided exactly this one request so far
		if cb.rc != nil && g.depth == 0 {
			verifAssert("recovery-ramp-starts-afresh", verifAnd(verifAnd(cb.rc.start.Equal(now), cb.rc.duration == cb.recoveryDuration), cb.rc.allowed+cb.rc.denied == 1))
		}
	}
	if s0 == stateRecovering || s1 == stateRecovering {
		if s0 == stateRecovering && now.After(until0) {
			// C12-O3: after the recovery period the breaker is back in standby, traffic passes
			verifAssert("recovery-over-standby", verifAnd(s1 == stateStandby, passed))
		}
		if s0 == stateRecovering && !now.After(until0) {
			// the recovery period includes its last instant: standby only at the first request
			// after its end, until then the ramp decides
			verifAssert("recovery-period-includes-its-end", s1 == stateRecovering)
		}
		if s1 == stateRecovering {
			verifAssert("recovery-until", cb.rc != nil)
		}
	}
	if s0 == stateRecovering && s1 == stateStandby {
		g.standbys++
	}
	if !passed {
		verifAssert("not-passed-means-fallback", verifAnd(len(rec.Codes) == 1, rec.code(0) == http.StatusServiceUnavailable))
		return
	}
	// ---- completion: transition s2 -> s3 happened at pre.now
	pre := vfPending[len(vfPending)-1]
	vfPending = vfPending[:len(vfPending)-1]
	s2, s3 := pre.state, cb.state
	verifAssert("completion-records-once", g.records == pre.records+1)
	evaluated := g.evals - pre.evals
	timeTo := pre.now.After(pre.lastCheck)
	verifAssert("completion-transition-legal", s3 == s2 || (s3 == stateTripped && (s2 == stateStandby || s2 == stateRecovering)))
	if s2 == stateTripped {
		verifAssert("completion-keeps-until-while-tripped", verifAnd(s3 == stateTripped, cb.until.Equal(pre.until)))
		verifAssert("no-evaluation-while-tripped", evaluated == 0)
	} else {
		// C18-O3: evaluated exactly at the first completion after each check period
		verifAssert("evaluated-iff-check-period-over", (evaluated == 1) == timeTo)
		verifAssert("at-most-one-evaluation", evaluated <= 1)
		if evaluated == 1 {
			verifAssert("trips-iff-condition", (s3 == stateTripped) == g.lastCond)
		} else {
			verifAssert("no-trip-without-evaluation", s3 == s2)
		}
	}
	if timeTo {
		verifAssert("next-check-scheduled", cb.lastCheck.Equal(pre.now.Add(cb.checkPeriod)))
	} else {
		verifAssert("check-not-rescheduled", cb.lastCheck.Equal(pre.lastCheck))
	}
	if s3 == stateTripped && s2 != stateTripped {
		g.tripAt = pre.now
		g.trips++
		verifAssert("trip-sets-until", cb.until.Equal(pre.now.Add(cb.fallbackDuration)))
		verifAssert("trip-clears-metrics", g.resets == pre.resets+1)
	} else {
		verifAssert("no-reset-without-trip", g.resets == pre.resets)
	}
}

// C05 / C12-O3 / C18-O3: bounded histories through the real ServeHTTP.
func VerifC05History() {
	verifClockInit("t0")
	g := &vfGhost{maxDepth: verifParam("depth")}
	vfG = g
	vfPending = nil
	cb := vfNewBreaker(g)
	onT, onS := &vfEffect{}, &vfEffect{}
	cb.onTripped, cb.onStandby = onT, onS
	k := verifParam("k")
	// work partition over the first choices (each job explores one share of the paths)
	part, parts := verifParam("part"), verifParam("parts")
	verifAssume(verifBool("cond1") == (part&1 != 0))
	verifAssume(verifBool("cond2") == (part&2 != 0))
	if parts > 4 {
		verifAssume(verifBool("bad0") == (part&4 != 0))
	}
	if parts > 8 {
		verifAssume(verifBool("overlap0") == (part&8 != 0))
	}
	for step := 0; step < k; step++ {
		_ = verifAdvance(verifName("gap", step), 1<<41)
		vfArrive(g, verifName("req", step))
	}
	// C18-O3: each side effect ran exactly once per corresponding transition
	ran := verifRunSpawned()
	if verifSymbolic() {
		verifAssert("effects-once-per-transition", verifAnd(onT.n == g.trips, onS.n == g.standbys))
		verifAssert("spawned-equals-transitions", ran == g.trips+g.standbys)
	}
	verifAssert("locks-released", verifLocksHeld() <= 0)
	verifReach("end")
}
