package cbreaker

import (
	"net/http"
	"sync"
	"time"

	"github.com/vulcand/oxy/v2/internal/holsterv4/clock"
	"github.com/vulcand/oxy/v2/memmetrics"
)

// vfYieldLogger is a logger at which the calling request may be held up (a slow log sink).
type vfYieldLogger struct{}

func (vfYieldLogger) Debug(string, ...any) {}
func (vfYieldLogger) Info(string, ...any)  {}
func (vfYieldLogger) Warn(string, ...any)  { verifYield() }
func (vfYieldLogger) Error(string, ...any) {}

type vfStallBackend struct {
	cb       *CircuitBreaker
	entered  int
	inB      bool
	unshield bool // a request that arrived while the breaker was tripped and inside its fallback period reached the backend
}

func (h *vfStallBackend) ServeHTTP(w http.ResponseWriter, r *http.Request) {
	h.entered++
	// thread B is never preempted: nothing can have happened between its request's admission
	// decision and this point (A's own admission may legitimately predate a trip made by B)
	if h.inB && h.cb.state == stateTripped && clock.Now().UTC().Before(h.cb.until) {
		h.unshield = true
	}
	verifYield() // the other events may happen while this request is at the backend
	w.WriteHeader(http.StatusBadGateway)
}

// C05-O3 / C18-O5: an arrival held up in the middle of its admission decision. The breaker
// is tripped or recovering (symbolic), its deadline before or after now (symbolic). Thread A
// is an arriving request; at one scheduling point inside A — a lock boundary, the log sink, the
// backend — thread B runs to completion: the clock moves on (symbolic), optionally another
// request arrives and is served, and a request admitted earlier completes, its completion
// evaluating the trip condition (symbolic outcome). Then A resumes. Whatever the placement:
//   - B's request does not reach the backend while the breaker is tripped and inside its fallback period;
//   - tripped -> recovering happens only once the fallback period is over, recovering -> standby
//     only after the recovery period, and no other transition leaves tripped/recovering except
//     a new trip (C05: the state only moves standby -> tripped -> recovering -> standby|tripped);
//   - if B's completion tripped the breaker, the breaker is tripped with until = that instant +
//     fallbackDuration when everything has finished, if that is still inside the fallback period
//     (nothing A still does may undo it);
//   - the on-standby and on-tripped effects run once per corresponding transition (C18).
func VerifC05Stall() {
	t0 := verifClockInit("t0")
	verifStub("github.com/vulcand/oxy/v2/memmetrics.NewRTMetrics", func(opts []any) (*memmetrics.RTMetrics, error) { return &memmetrics.RTMetrics{}, nil })
	verifStub("(*github.com/vulcand/oxy/v2/memmetrics.RTMetrics).Record", func(m *memmetrics.RTMetrics, code int, d time.Duration) {})
	resets := 0
	verifStub("(*github.com/vulcand/oxy/v2/memmetrics.RTMetrics).Reset", func(m *memmetrics.RTMetrics) { resets++ })
	ramp := 0
	verifStub("(*github.com/vulcand/oxy/v2/cbreaker.ratioController).allowRequest", func(r *ratioController) bool {
		ramp++
		res := verifBool(verifName("allow", ramp))
		el := clock.Now().UTC().Sub(r.start)
		if (r.allowed == 0 && r.denied == 0) || el <= r.duration>>18 {
			res = false
		}
		if res {
			r.allowed++
		} else {
			r.denied++
		}
		return res
	})
	mt, _ := memmetrics.NewRTMetrics()
	onT, onS := &vfEffect{}, &vfEffect{}
	be := &vfStallBackend{}
	cb := &CircuitBreaker{m: &sync.RWMutex{}, next: be, fallback: defaultFallback, log: vfYieldLogger{}, metrics: mt, onTripped: onT, onStandby: onS}
	be.cb = cb
	cb.fallbackDuration = time.Duration(verifInt64("fallbackDuration"))
	cb.recoveryDuration = time.Duration(verifInt64("recoveryDuration"))
	cb.checkPeriod = time.Duration(verifInt64("checkPeriod"))
	verifAssume(verifAnd(cb.fallbackDuration >= 1, cb.fallbackDuration <= 1<<40))
	verifAssume(verifAnd(cb.recoveryDuration >= 1, cb.recoveryDuration <= 1<<40))
	verifAssume(verifAnd(cb.checkPeriod >= 1, cb.checkPeriod <= 1<<40))
	// pre-state: tripped or recovering, deadline and next check instant on either side of now
	uo := verifInt64("untilOffset")
	lo := verifInt64("lastCheckOffset")
	verifAssume(verifAnd(uo >= -(1<<41), uo <= 1<<41))
	verifAssume(verifAnd(lo >= -(1<<41), lo <= 1<<41))
	cb.until = t0.Add(time.Duration(uo))
	cb.lastCheck = t0.Add(time.Duration(lo))
	if verifBool("startRecovering") {
		cb.state = stateRecovering
		cb.rc = newRatioController(cb.recoveryDuration, cb.log)
	} else {
		cb.state = stateTripped
	}
	bTripped := false
	var bTripAt time.Time
	evals := 0
	cb.condition = func(c *CircuitBreaker) bool {
		evals++
		res := verifBool(verifName("cond", evals))
		if res && be.inB {
			bTripped, bTripAt = true, clock.Now().UTC()
		}
		return res
	}
	// ghost (engine only): transitions observed at every lock boundary of either thread
	last, lastUntil := cb.state, cb.until
	illegal, trips, standbys := false, 0, 0
	verifOnLockEvent(func() {
		now := clock.Now().UTC()
		if cb.state != last {
			switch {
			case cb.state == stateTripped:
				trips++
			case last == stateTripped && cb.state == stateRecovering:
				illegal = verifOr(illegal, now.Before(lastUntil))
			case last == stateRecovering && cb.state == stateStandby:
				standbys++
				illegal = verifOr(illegal, !now.After(lastUntil))
			default:
				illegal = true
			}
		}
		last, lastUntil = cb.state, cb.until
	})
	serve := func() { cb.ServeHTTP(&verifRecorder{}, &http.Request{Header: http.Header{}}) }
	withB := verifBool("otherArrival")
	verifInterleave("stall", serve, func() {
		be.inB = true
		_ = verifAdvance("gapB", 1<<41)
		if withB {
			serve()
		}
		cb.checkAndSet() // completion of a request admitted before all this
		_ = verifAdvance("gapB2", 1<<41) // A may be held up for any time
		be.inB = false
	})
	ran := verifRunSpawned()
	if !verifSymbolic() {
		time.Sleep(50 * time.Millisecond) // natively the side effects run in their own goroutines
	}
	verifAssert("shielded-while-tripped", !be.unshield)
	if bTripped && clock.Now().UTC().Before(bTripAt.Add(cb.fallbackDuration)) {
		verifAssert("completed-trip-stands", verifAnd(cb.state == stateTripped, cb.until.Equal(bTripAt.Add(cb.fallbackDuration))))
		verifReach("b-tripped")
	}
	verifAssert("on-standby-at-most-once", onS.get() <= 1)
	if verifSymbolic() {
		verifAssert("only-legal-transitions", !illegal)
		verifAssert("effects-once-per-transition", verifAnd(verifAnd(onT.n == trips, onS.n == standbys), ran == trips+standbys))
		verifAssert("one-reset-per-trip", resets == trips)
	}
	verifAssert("locks-released", verifLocksHeld() <= 0)
	verifReach("end")
}
