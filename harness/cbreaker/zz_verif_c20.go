package cbreaker

import (
	"net/http"
	"net/url"
	"sync"
	"time"

	"github.com/vulcand/oxy/v2/internal/holsterv4/clock"
	"github.com/vulcand/oxy/v2/memmetrics"
	"github.com/vulcand/oxy/v2/utils"
)

func VerifC20T() {
	clock.Freeze(time.Unix(1700000000, 0))
	verifStub("github.com/vulcand/oxy/v2/memmetrics.NewRollingHDRHistogram", func(low, high int64, sig int, period time.Duration, n int, opts []any) (*memmetrics.RollingHDRHistogram, error) {
		return &memmetrics.RollingHDRHistogram{}, nil
	})
	verifStub("(*github.com/vulcand/oxy/v2/memmetrics.RollingHDRHistogram).RecordLatencies", func(h *memmetrics.RollingHDRHistogram, d time.Duration, n int64) error { return nil })
	mk := func(next http.Handler) *CircuitBreaker {
		mt, err := memmetrics.NewRTMetrics()
		verifAssert("metrics-ok", err == nil)
		cb := &CircuitBreaker{m: &sync.RWMutex{}, next: next, fallback: defaultFallback, log: &utils.NoopLogger{}, metrics: mt,
			fallbackDuration: 10 * time.Second, recoveryDuration: 10 * time.Second, checkPeriod: 100 * time.Millisecond}
		cb.condition = func(c *CircuitBreaker) bool { return false }
		return cb
	}
	req := &http.Request{Method: "GET", URL: &url.URL{Path: "/"}, Header: http.Header{}}
	verifTransparent(func(next http.Handler) http.Handler { return mk(next) }, req, false)
	// decisive: tripped -> fallback answers, handler not invoked
	sc := &verifScript{}
	cb := mk(sc)
	cb.state, cb.until = stateTripped, clock.Now().UTC().Add(time.Second)
	rec := &verifRecorderFH{}
	cb.ServeHTTP(rec, req)
	verifAssert("intervention-skips-handler", sc.Calls == 0)
	verifAssert("intervention-one-response", verifAnd(len(rec.Codes) == 1, rec.code(0) == http.StatusServiceUnavailable))
	verifReach("end")
}
