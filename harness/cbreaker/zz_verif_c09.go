package cbreaker

import (
	"net/http"
	"sync"
	"time"

	"github.com/vulcand/oxy/v2/internal/holsterv4/clock"
	"github.com/vulcand/oxy/v2/memmetrics"
	"github.com/vulcand/oxy/v2/utils"
)

type vfNop struct{ code int }

func (n *vfNop) ServeHTTP(w http.ResponseWriter, r *http.Request) { w.WriteHeader(n.code) }

func VerifC09Breaker() {
	clock.Freeze(time.Unix(1700000000, 0))
	verifStub("github.com/vulcand/oxy/v2/memmetrics.NewRollingHDRHistogram", func(low, high int64, sig int, period time.Duration, n int, opts []any) (*memmetrics.RollingHDRHistogram, error) {
		return &memmetrics.RollingHDRHistogram{}, nil
	})
	verifStub("(*github.com/vulcand/oxy/v2/memmetrics.RollingHDRHistogram).RecordLatencies", func(h *memmetrics.RollingHDRHistogram, d time.Duration, n int64) error { return nil })
	verifStub("(*github.com/vulcand/oxy/v2/memmetrics.RollingHDRHistogram).Reset", func(h *memmetrics.RollingHDRHistogram) {})
	backend := &vfNop{code: 200}
	mt, err := memmetrics.NewRTMetrics()
	verifAssert("metrics-ok", err == nil)
	cb := &CircuitBreaker{m: &sync.RWMutex{}, next: backend, fallback: defaultFallback, log: &utils.NoopLogger{}, metrics: mt,
		fallbackDuration: 10 * time.Second, recoveryDuration: 10 * time.Second, checkPeriod: 100 * time.Millisecond}
	cb.condition = func(c *CircuitBreaker) bool { return c.metrics.NetworkErrorRatio() > 0.5 }
	verifShared(cb)
	serve := func() { cb.ServeHTTP(&verifRecorder{}, &http.Request{Header: http.Header{}}) }
	verifRacePair("standby:ServeHTTP|ServeHTTP", serve, serve)
	clock.Advance(time.Second)
	verifRacePair("standby(check period over):ServeHTTP|ServeHTTP", serve, serve)
	backend.code = 502
	clock.Advance(time.Second)
	verifRacePair("tripping:ServeHTTP|ServeHTTP", serve, serve)
	clock.Advance(11 * time.Second)
	verifRacePair("recovering:ServeHTTP|ServeHTTP", serve, serve)
	verifReach("end")
}
