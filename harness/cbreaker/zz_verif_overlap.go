package cbreaker

import (
	"net/http"
	"sync"
	"time"

	"github.com/vulcand/oxy/v2/memmetrics"
	"github.com/vulcand/oxy/v2/utils"
)

type vfLatency struct {
	lat time.Duration
}

func (h *vfLatency) ServeHTTP(w http.ResponseWriter, r *http.Request) {
	verifYield() // the other request may complete while this one is at the backend
	w.WriteHeader(http.StatusBadGateway)
}

// C05/C18: two requests whose completions overlap. Thread A serves a request; at any lock
// boundary inside A (symbolic choice) thread B serves another request to completion, the
// clock having moved by a symbolic amount; then A resumes. Whatever the placement:
// the on-tripped effect runs once per transition into tripped, a trip clears the metrics once,
// and after a trip the breaker is tripped with until = trip instant + fallbackDuration.
func VerifC18Overlap() {
	verifClockInit("t0")
	g := &vfGhost{maxDepth: 1}
	vfG = g
	verifStub("github.com/vulcand/oxy/v2/memmetrics.NewRTMetrics", func(opts []any) (*memmetrics.RTMetrics, error) { return &memmetrics.RTMetrics{}, nil })
	verifStub("(*github.com/vulcand/oxy/v2/memmetrics.RTMetrics).Record", func(m *memmetrics.RTMetrics, code int, d time.Duration) { vfG.records++ })
	verifStub("(*github.com/vulcand/oxy/v2/memmetrics.RTMetrics).Reset", func(m *memmetrics.RTMetrics) { vfG.resets++ })
	mt, _ := memmetrics.NewRTMetrics()
	onT := &vfEffect{}
	cb := &CircuitBreaker{m: &sync.RWMutex{}, next: &vfLatency{}, fallback: defaultFallback, log: &utils.NoopLogger{}, metrics: mt, onTripped: onT}
	cb.fallbackDuration = time.Duration(verifInt64("fallbackDuration"))
	cb.recoveryDuration = time.Duration(verifInt64("recoveryDuration"))
	cb.checkPeriod = time.Duration(verifInt64("checkPeriod"))
	verifAssume(verifAnd(cb.fallbackDuration >= 1, cb.fallbackDuration <= 1<<40))
	verifAssume(verifAnd(cb.recoveryDuration >= 1, cb.recoveryDuration <= 1<<40))
	verifAssume(verifAnd(cb.checkPeriod >= 1, cb.checkPeriod <= 1<<40))
	evals := 0
	cb.condition = func(c *CircuitBreaker) bool {
		evals++
		verifYield() // the other request may complete while the condition is being evaluated
		return verifBool(verifName("cond", evals))
	}
	g.cb = cb
	// ghost: transitions into tripped, observed at every lock boundary of either thread
	trips := 0
	last := cb.state
	verifOnLockEvent(func() {
		if cb.state == stateTripped && last != stateTripped {
			trips++
		}
		last = cb.state
	})
	serve := func() { cb.ServeHTTP(&verifRecorder{}, &http.Request{Header: http.Header{}}) }
	_ = verifAdvance("gap0", 1<<41)
	verifInterleave("completions", serve, func() {
		_ = verifAdvance("gapB", 1<<41) // B's completion may fall into a later check period
		serve()
	})
	ran := verifRunSpawned()
	if !verifSymbolic() {
		time.Sleep(50 * time.Millisecond) // natively the side effects run in their own goroutines
	}
	// two requests from standby can trip the breaker at most once: after the trip the second
	// request is shielded or, after the fallback period, refused as the first of a recovery
	verifAssert("two-requests-trip-at-most-once", onT.get() <= 1)
	if verifSymbolic() {
		verifAssert("on-tripped-once-per-transition", verifAnd(onT.n == trips, ran == trips))
		verifAssert("one-reset-per-trip", g.resets == trips)
	}
	verifAssert("locks-released", verifLocksHeld() <= 0)
	verifReach("end")
}
