package cbreaker

import (
	"time"

	"github.com/vulcand/oxy/v2/utils"
)

// C12-O1: the float64 decision of allowRequest agrees with the exact rational ramp
// 0.5*elapsed/duration up to a relative 2^-40, for every elapsed time in [0,duration],
// every pair of counters (allowed, denied) in [0,A]^2 and a list of durations.
func VerifC12Decision() {
	A := verifParam("A")
	dur := int64(verifParam("dur"))
	now0 := verifClockInit("now0")
	el := int64(verifAdvance("el", int(dur)))
	verifAssume(el <= dur)
	for a := 0; a <= A; a++ {
		for d := 0; d <= A; d++ {
			rc := &ratioController{duration: time.Duration(dur), start: now0, allowed: a, denied: d, log: &utils.NoopLogger{}}
			ok := rc.allowRequest()
			// candidate fraction if this request is passed: (a+1)/(a+d+1); ramp: el/(2*dur)
			lhs := 2 * int64(a+1) * dur
			rhs := el * int64(a+d+1)
			passOK := lhs <= rhs+(rhs>>40)+1      // passed  => (a+1)/(a+d+1) <~ ramp
			denyOK := lhs+(lhs>>40)+1 >= rhs      // refused => (a+1)/(a+d+1) >~ ramp
			verifAssert("decision-matches-ramp", verifIteBool(ok, passOK, denyOK))
			verifAssert("counters-updated", verifIteBool(ok, verifAnd(rc.allowed == a+1, rc.denied == d), verifAnd(rc.allowed == a, rc.denied == d+1)))
		}
	}
	verifReach("end")
}

// C12-O2: the running fraction stays below the ramp — inductive, in the code's own float
// terms: if allowed=0 or computeRatio(allowed,denied) <= targetRatio(el0), then after one
// more decision at a later instant el >= el0 the same holds.
func VerifC12Fraction() {
	B := verifParam("B")
	dur := int64(verifParam("dur"))
	now0 := verifClockInit("now0")
	a, d := verifInt("a"), verifInt("d")
	verifAssume(verifAnd(a >= 0, a < 1<<B))
	verifAssume(verifAnd(d >= 0, d < 1<<B))
	rc := &ratioController{duration: time.Duration(dur), start: now0, allowed: a, denied: d, log: &utils.NoopLogger{}}
	el0 := int64(verifAdvance("el0", int(dur)))
	verifAssume(el0 <= dur)
	verifAssume(verifOr(a == 0, rc.computeRatio(a, d) <= rc.targetRatio()))
	el1 := int64(verifAdvance("el1", int(dur)))
	verifAssume(el0+el1 <= dur)
	_ = rc.allowRequest()
	verifAssert("fraction-below-ramp", verifOr(rc.allowed == 0, rc.computeRatio(rc.allowed, rc.denied) <= rc.targetRatio()))
	verifAssert("one-counter-moves", rc.allowed+rc.denied == a+d+1)
	verifReach("end")
}
